// temporary script-driven probe (replaced by the real harness)
use grafeo_common::types::{EdgeId, NodeId, Value};
use grafeo_engine::{Config, GrafeoDB};
use gv_harness::catch;

fn pv(s: &str) -> Value {
    if s == "null" {
        Value::Null
    } else if s == "true" {
        Value::Bool(true)
    } else if s == "false" {
        Value::Bool(false)
    } else if let Some(x) = s.strip_suffix('f') {
        Value::Float64(x.parse().unwrap())
    } else if let Some(x) = s.strip_prefix('\'') {
        Value::String(x.trim_end_matches('\'').into())
    } else {
        Value::Int64(s.parse().unwrap())
    }
}

fn main() {
    let path = std::env::args().nth(1).unwrap();
    let txt = std::fs::read_to_string(path).unwrap();
    let mut db = GrafeoDB::new_in_memory();
    let mut nodes: Vec<NodeId> = vec![];
    let mut edges: Vec<EdgeId> = vec![];
    for line in txt.lines() {
        let line = line.trim();
        if line.is_empty() || line.starts_with('#') {
            continue;
        }
        let (cmd, rest) = line.split_once(' ').unwrap_or((line, ""));
        match cmd {
            "new" => {
                db = if rest.contains("nofact") {
                    GrafeoDB::with_config(Config::in_memory().without_factorized_execution()).unwrap()
                } else {
                    GrafeoDB::new_in_memory()
                };
                nodes.clear();
                edges.clear();
                println!("--- new {rest}");
            }
            "node" => {
                let mut it = rest.split_whitespace();
                let labels: Vec<&str> = it.next().unwrap().split(',').filter(|l| *l != "-").collect();
                let n = db.create_node(&labels);
                for kv in it {
                    let (k, v) = kv.split_once('=').unwrap();
                    db.set_node_property(n, k, pv(v));
                }
                nodes.push(n);
            }
            "edge" => {
                let mut it = rest.split_whitespace();
                let s: usize = it.next().unwrap().parse().unwrap();
                let d: usize = it.next().unwrap().parse().unwrap();
                let t = it.next().unwrap();
                let e = db.create_edge(nodes[s], nodes[d], t);
                for kv in it {
                    let (k, v) = kv.split_once('=').unwrap();
                    db.set_edge_property(e, k, pv(v));
                }
                edges.push(e);
            }
            "set" => {
                let mut it = rest.split_whitespace();
                let s: usize = it.next().unwrap().parse().unwrap();
                let (k, v) = it.next().unwrap().split_once('=').unwrap();
                db.set_node_property(nodes[s], k, pv(v));
            }
            "delnode" => {
                let s: usize = rest.trim().parse().unwrap();
                println!("delnode -> {}", db.delete_node(nodes[s]));
            }
            "deledge" => {
                let s: usize = rest.trim().parse().unwrap();
                println!("deledge -> {}", db.delete_edge(edges[s]));
            }
            "index" => db.create_property_index(rest.trim()),
            "dropindex" => {
                db.drop_property_index(rest.trim());
            }
            "gql" | "cypher" | "gremlin" | "graphql" => {
                let s = db.session();
                let q = rest.to_string();
                let c = cmd.to_string();
                let r = catch(std::panic::AssertUnwindSafe(|| match c.as_str() {
                    "gql" => s.execute(&q),
                    "cypher" => s.execute_cypher(&q),
                    "gremlin" => s.execute_gremlin(&q),
                    _ => s.execute_graphql(&q),
                }));
                match r {
                    Ok(Ok(r)) => {
                        let rows: Vec<String> = r.rows.iter().take(40).map(|row| format!("{:?}", row)).collect();
                        println!("{cmd:8} {q}\n   -> cols {:?} {} rows: {}", r.columns, r.rows.len(), rows.join(" "));
                    }
                    Ok(Err(e)) => println!("{cmd:8} {q}\n   -> ERR {e}"),
                    Err(p) => println!("{cmd:8} {q}\n   -> PANIC {p}"),
                }
            }
            _ => println!("?? {line}"),
        }
    }
}
