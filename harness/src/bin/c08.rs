//! C08 / C10 — read queries against the graph-pattern semantics, and physical configurations.
//!
//! Builds generated graphs through the public API, renders generated abstract core queries in
//! GQL / Cypher / Gremlin / GraphQL, runs them through `Session::execute*`, dumps the optimized
//! logical plan each front end produced (translate -> bind -> optimize, the same calls as
//! session.rs) as a Coq term of `GV.Query.Pattern.lop`, and emits per execution
//!   coq  : chk_run   (physical model of the dumped plan == engine rows)        correspondence
//!   orc  : orc_answer (engine rows == declarative answer of the abstract query) C08 oracle
//!          orc_same   (two executions of one text agree)                        C10 oracle
//!   ks   : candidate finding classes [[id, coq term], ...] (decided in Coq by the check)
use grafeo_common::types::{EdgeId, NodeId, Value};
use grafeo_engine::query::plan::*;
use grafeo_engine::query::{binder::Binder, optimizer::Optimizer};
use grafeo_engine::{Config, GrafeoDB};
use gv_harness::*;
use std::collections::{BTreeMap, BTreeSet};
use std::fmt::Write as _;
use std::io::Write as _;

// ------------------------------------------------------------------------------------------ values
#[derive(Clone, Debug, PartialEq)]
enum V {
    Null,
    Bool(bool),
    Int(i64),
    /// halves: value = h / 2 (exact in f64)
    Half(i64),
    Str(String),
}
impl V {
    fn to_value(&self) -> Value {
        match self {
            V::Null => Value::Null,
            V::Bool(b) => Value::Bool(*b),
            V::Int(i) => Value::Int64(*i),
            V::Half(h) => Value::Float64(*h as f64 / 2.0),
            V::Str(s) => Value::String(s.as_str().into()),
        }
    }
    fn coq(&self) -> String {
        value_coq(&self.to_value()).unwrap()
    }
    /// literal in GQL / Cypher text
    fn lit(&self) -> String {
        match self {
            V::Null => "null".into(),
            V::Bool(b) => format!("{b}"),
            V::Int(i) => format!("{i}"),
            V::Half(h) => format!("{:.1}", *h as f64 / 2.0),
            V::Str(s) => format!("'{s}'"),
        }
    }
}
fn cstr(s: &str) -> Option<String> {
    if s.chars().all(|c| c.is_ascii_alphanumeric() || "_.()* -".contains(c)) {
        Some(format!("\"{s}\"%string"))
    } else {
        None
    }
}
fn cs(s: &str) -> String {
    cstr(s).unwrap_or_else(|| "\"?\"%string".into())
}
/// exact rational of a finite f64: (n, d) with d = 2^k, lowest terms
fn f64_ratio(f: f64) -> Option<(i128, i128)> {
    if !f.is_finite() {
        return None;
    }
    if f == 0.0 {
        return Some((0, 1));
    }
    let bits = f.to_bits();
    let sign: i128 = if bits >> 63 == 1 { -1 } else { 1 };
    let exp = ((bits >> 52) & 0x7ff) as i64;
    let frac = (bits & ((1u64 << 52) - 1)) as i128;
    let (mut m, mut e) = if exp == 0 { (frac, -1074i64) } else { (frac | (1i128 << 52), exp - 1075) };
    while m % 2 == 0 && e < 0 {
        m /= 2;
        e += 1;
    }
    if e >= 0 {
        if e > 60 {
            return None;
        }
        Some((sign * (m << e), 1))
    } else {
        if -e > 100 {
            return None;
        }
        Some((sign * m, 1i128 << (-e)))
    }
}
fn value_coq(v: &Value) -> Option<String> {
    Some(match v {
        Value::Null => "VNull".into(),
        Value::Bool(b) => format!("(VBool {b})"),
        Value::Int64(i) => format!("(VInt ({i}))"),
        Value::Float64(f) => {
            let (n, d) = f64_ratio(*f)?;
            format!("(VFlt ({n}) ({d}))")
        }
        Value::String(s) => format!("(VStr {})", cstr(s.as_str())?),
        Value::List(l) => {
            let mut items = vec![];
            for x in l.iter() {
                items.push(value_coq(x)?);
            }
            format!("(VList {})", coq::list(items))
        }
        _ => return None,
    })
}
fn opt_s(o: &Option<String>) -> String {
    match o {
        Some(s) => format!("(Some {})", cs(s)),
        None => "None".into(),
    }
}

// ------------------------------------------------------------------------------------------ world
#[derive(Clone, Debug)]
struct GNode {
    id: u64,
    labels: Vec<String>,
    props: BTreeMap<String, V>,
}
#[derive(Clone, Debug)]
struct GEdge {
    id: u64,
    src: u64,
    dst: u64,
    ty: String,
    props: BTreeMap<String, V>,
}
/// a build script: replayable on a fresh database (equal graphs under different configurations)
#[derive(Clone, Debug)]
enum Op {
    Node(Vec<String>, Vec<(String, V)>),
    Edge(usize, usize, String, Vec<(String, V)>), // indexes into the node list of the script
    SetNode(usize, String, V),
    DelEdge(usize),
    DelNode(usize), // detach: incident edges are deleted first
    Index(String),
    DropIndex(String),
}
struct World {
    db: GrafeoDB,
    factorized: bool,
    nids: Vec<NodeId>,
    eids: Vec<EdgeId>,
    nodes: BTreeMap<u64, GNode>,
    edges: BTreeMap<u64, GEdge>,
    indexed: BTreeSet<String>,
    zcols: BTreeMap<String, (Vec<V>, bool)>,
}
impl World {
    fn new(factorized: bool) -> World {
        let db = if factorized {
            GrafeoDB::new_in_memory()
        } else {
            GrafeoDB::with_config(Config::in_memory().without_factorized_execution()).expect("db")
        };
        World {
            db,
            factorized,
            nids: vec![],
            eids: vec![],
            nodes: BTreeMap::new(),
            edges: BTreeMap::new(),
            indexed: BTreeSet::new(),
            zcols: BTreeMap::new(),
        }
    }
    fn build(factorized: bool, ops: &[Op]) -> World {
        let mut w = World::new(factorized);
        for o in ops {
            w.apply(o);
        }
        w
    }
    fn set_node(&mut self, id: NodeId, k: &str, v: &V) {
        self.db.set_node_property(id, k, v.to_value());
        self.nodes.get_mut(&id.0).unwrap().props.insert(k.to_string(), v.clone());
        self.zcols.entry(k.to_string()).or_insert((vec![], false)).0.push(v.clone());
    }
    fn del_edge_id(&mut self, e: EdgeId) {
        if self.edges.remove(&e.0).is_some() {
            self.db.delete_edge(e);
        }
    }
    fn apply(&mut self, o: &Op) {
        match o {
            Op::Node(labels, props) => {
                let ls: Vec<&str> = labels.iter().map(|s| s.as_str()).collect();
                let id = self.db.create_node(&ls);
                self.nids.push(id);
                self.nodes.insert(id.0, GNode { id: id.0, labels: labels.clone(), props: BTreeMap::new() });
                for (k, v) in props {
                    self.set_node(id, k, v);
                }
            }
            Op::Edge(s, d, ty, props) => {
                let (s, d) = (self.nids[*s], self.nids[*d]);
                if !self.nodes.contains_key(&s.0) || !self.nodes.contains_key(&d.0) {
                    return;
                }
                let id = self.db.create_edge(s, d, ty);
                self.eids.push(id);
                let mut pm = BTreeMap::new();
                for (k, v) in props {
                    self.db.set_edge_property(id, k, v.to_value());
                    pm.insert(k.clone(), v.clone());
                }
                self.edges.insert(id.0, GEdge { id: id.0, src: s.0, dst: d.0, ty: ty.clone(), props: pm });
            }
            Op::SetNode(i, k, v) => {
                let id = self.nids[*i];
                if self.nodes.contains_key(&id.0) {
                    self.set_node(id, k, v);
                }
            }
            Op::DelEdge(i) => {
                if let Some(e) = self.eids.get(*i).copied() {
                    self.del_edge_id(e);
                }
            }
            Op::DelNode(i) => {
                let id = self.nids[*i];
                if !self.nodes.contains_key(&id.0) {
                    return;
                }
                let inc: Vec<u64> =
                    self.edges.values().filter(|e| e.src == id.0 || e.dst == id.0).map(|e| e.id).collect();
                for e in inc {
                    self.del_edge_id(EdgeId(e));
                }
                let n = self.nodes.remove(&id.0).unwrap();
                for k in n.props.keys() {
                    if let Some(z) = self.zcols.get_mut(k) {
                        z.1 = true;
                    }
                }
                self.db.delete_node(id);
            }
            Op::Index(k) => {
                self.db.create_property_index(k);
                self.indexed.insert(k.clone());
            }
            Op::DropIndex(k) => {
                self.db.drop_property_index(k);
                self.indexed.remove(k);
            }
        }
    }
    fn store_coq(&self) -> String {
        let props = |p: &BTreeMap<String, V>| coq::list(p.iter().map(|(k, v)| format!("({}, {})", cs(k), v.coq())));
        let ns = coq::list(self.nodes.values().map(|n| {
            format!("mkNode ({}) {} {}", n.id, coq::list(n.labels.iter().map(|l| cs(l))), props(&n.props))
        }));
        let es = coq::list(self.edges.values().map(|e| {
            format!("mkEdge ({}) ({}) ({}) {} {}", e.id, e.src, e.dst, cs(&e.ty), props(&e.props))
        }));
        let ix = coq::list(self.indexed.iter().map(|k| cs(k)));
        let zc = coq::list(self.zcols.iter().map(|(k, (h, d))| {
            format!("({}, mkZcol {} {})", cs(k), coq::list(h.iter().map(|v| v.coq())), d)
        }));
        format!("(mkStore {ns} {es} {ix} {zc})")
    }
    fn describe(&self) -> String {
        let mut s = String::new();
        for n in self.nodes.values() {
            let _ = write!(s, "n{}:{}{:?} ", n.id, n.labels.join(":"), n.props);
        }
        for e in self.edges.values() {
            let _ = write!(s, "e{}:{}-{}->{}{:?} ", e.id, e.src, e.ty, e.dst, e.props);
        }
        if !self.indexed.is_empty() {
            let _ = write!(s, "idx{:?} ", self.indexed);
        }
        let _ = write!(s, "fact={}", self.factorized);
        s
    }
    fn has_selfloop_or_parallel(&self) -> bool {
        let mut seen = BTreeSet::new();
        for e in self.edges.values() {
            if e.src == e.dst || !seen.insert((e.src, e.dst)) {
                return true;
            }
        }
        false
    }
    fn acyclic_forward(&self) -> bool {
        self.edges.values().all(|e| e.src < e.dst)
    }
}

// ------------------------------------------------------------------------------------------ plan dump
fn expr_coq(e: &LogicalExpression) -> Option<String> {
    Some(match e {
        LogicalExpression::Literal(v) => format!("(ELit {})", value_coq(v)?),
        LogicalExpression::Variable(x) => format!("(EVar {})", cstr(x)?),
        LogicalExpression::Property { variable, property } => format!("(EProp {} {})", cstr(variable)?, cstr(property)?),
        LogicalExpression::Binary { left, op, right } => {
            if let (BinaryOp::In, LogicalExpression::Literal(Value::String(l)), LogicalExpression::Labels(x)) =
                (op, left.as_ref(), right.as_ref())
            {
                return Some(format!("(ELabelIn {} {})", cstr(l.as_str())?, cstr(x)?));
            }
            let (a, b) = (expr_coq(left)?, expr_coq(right)?);
            match op {
                BinaryOp::Eq => format!("(ECmp OEq {a} {b})"),
                BinaryOp::Ne => format!("(ECmp ONe {a} {b})"),
                BinaryOp::Lt => format!("(ECmp OLt {a} {b})"),
                BinaryOp::Le => format!("(ECmp OLe {a} {b})"),
                BinaryOp::Gt => format!("(ECmp OGt {a} {b})"),
                BinaryOp::Ge => format!("(ECmp OGe {a} {b})"),
                BinaryOp::And => format!("(EAnd {a} {b})"),
                BinaryOp::Or => format!("(EOr {a} {b})"),
                _ => return None,
            }
        }
        LogicalExpression::Unary { op, operand } => {
            let a = expr_coq(operand)?;
            match op {
                UnaryOp::Not => format!("(ENot {a})"),
                UnaryOp::IsNull => format!("(EIsNull {a})"),
                UnaryOp::IsNotNull => format!("(EIsNotNull {a})"),
                _ => return None,
            }
        }
        LogicalExpression::FunctionCall { name, args, .. } => {
            if name.eq_ignore_ascii_case("haslabel") && args.len() == 2 {
                if let (LogicalExpression::Variable(x), LogicalExpression::Literal(Value::String(l))) = (&args[0], &args[1]) {
                    return Some(format!("(EHasLabel {} {})", cstr(x)?, cstr(l.as_str())?));
                }
            }
            return None;
        }
        _ => return None,
    })
}
fn items_coq<'a, I: Iterator<Item = (&'a LogicalExpression, &'a Option<String>)>>(it: I) -> Option<String> {
    let mut v = vec![];
    for (e, a) in it {
        if let Some(a) = a {
            cstr(a)?;
        }
        v.push(format!("({}, {})", expr_coq(e)?, opt_s(a)));
    }
    Some(coq::list(v))
}
fn plan_coq(p: &LogicalOperator) -> Option<String> {
    Some(match p {
        LogicalOperator::NodeScan(s) => {
            if s.input.is_some() {
                return None;
            }
            if let Some(l) = &s.label {
                cstr(l)?;
            }
            format!("(LScan {} {})", cstr(&s.variable)?, opt_s(&s.label))
        }
        LogicalOperator::Expand(x) => {
            if x.path_alias.is_some() {
                return None;
            }
            let d = match x.direction {
                ExpandDirection::Outgoing => "Out",
                ExpandDirection::Incoming => "In",
                ExpandDirection::Both => "Both",
            };
            if x.min_hops > 50 || x.max_hops.is_some_and(|m| m > 50) {
                return None;
            }
            let mx = match x.max_hops {
                Some(m) => format!("(Some {}%nat)", m),
                None => "None".into(),
            };
            if let Some(t) = &x.edge_type {
                cstr(t)?;
            }
            if let Some(t) = &x.edge_variable {
                cstr(t)?;
            }
            format!(
                "(LExpand {} {} {} {} {} {}%nat {} {})",
                cstr(&x.from_variable)?,
                cstr(&x.to_variable)?,
                opt_s(&x.edge_variable),
                d,
                opt_s(&x.edge_type),
                x.min_hops,
                mx,
                plan_coq(&x.input)?
            )
        }
        LogicalOperator::Filter(f) => format!("(LFilter {} {})", expr_coq(&f.predicate)?, plan_coq(&f.input)?),
        LogicalOperator::Return(r) => format!(
            "(LReturn {} {} {})",
            items_coq(r.items.iter().map(|i| (&i.expression, &i.alias)))?,
            r.distinct,
            plan_coq(&r.input)?
        ),
        LogicalOperator::Project(r) => format!(
            "(LProject {} {})",
            items_coq(r.projections.iter().map(|i| (&i.expression, &i.alias)))?,
            plan_coq(&r.input)?
        ),
        LogicalOperator::Sort(s) => {
            let mut ks = vec![];
            for k in &s.keys {
                ks.push(format!("({}, {})", expr_coq(&k.expression)?, k.order == SortOrder::Descending));
            }
            format!("(LSort {} {})", coq::list(ks), plan_coq(&s.input)?)
        }
        LogicalOperator::Skip(s) => {
            if s.count > 4000 {
                return None;
            }
            format!("(LSkip {}%nat {})", s.count, plan_coq(&s.input)?)
        }
        LogicalOperator::Limit(s) => {
            if s.count > 4000 {
                return None;
            }
            format!("(LLimit {}%nat {})", s.count, plan_coq(&s.input)?)
        }
        LogicalOperator::Distinct(d) => {
            if d.columns.is_some() {
                return None;
            }
            format!("(LDistinct {})", plan_coq(&d.input)?)
        }
        LogicalOperator::Aggregate(a) => {
            if a.having.is_some() {
                return None;
            }
            let mut gb = vec![];
            for g in &a.group_by {
                gb.push(expr_coq(g)?);
            }
            let mut ags = vec![];
            for x in &a.aggregates {
                let f = match x.function {
                    AggregateFunction::Count => "ACount",
                    AggregateFunction::CountNonNull => "ACountNN",
                    AggregateFunction::Sum => "ASum",
                    AggregateFunction::Avg => "AAvg",
                    AggregateFunction::Min => "AMin",
                    AggregateFunction::Max => "AMax",
                    AggregateFunction::Collect => "ACollect",
                    _ => return None,
                };
                let arg = match &x.expression {
                    Some(e) => format!("(Some {})", expr_coq(e)?),
                    None => "None".into(),
                };
                if let Some(a) = &x.alias {
                    cstr(a)?;
                }
                ags.push(format!("(mkAgg {f} {arg} {} {})", x.distinct, opt_s(&x.alias)));
            }
            format!("(LAggregate {} {} {})", coq::list(gb), coq::list(ags), plan_coq(&a.input)?)
        }
        _ => return None,
    })
}

// ------------------------------------------------------------------------------------------ abstract queries
#[derive(Clone, Copy, Debug, PartialEq)]
enum Dir {
    Out,
    In,
    Both,
}
#[derive(Clone, Debug)]
struct NPat {
    var: String,
    labels: Vec<String>,
}
#[derive(Clone, Debug, PartialEq)]
enum HLen {
    One,
    Var(u32, Option<u32>),
}
#[derive(Clone, Debug)]
struct Hop {
    dir: Dir,
    ty: Option<String>,
    evar: Option<String>,
    len: HLen,
    to: NPat,
}
#[derive(Clone, Copy, Debug, PartialEq)]
enum Cmp {
    Eq,
    Ne,
    Lt,
    Le,
    Gt,
    Ge,
}
#[derive(Clone, Debug)]
enum Ex {
    Lit(V),
    Var(String),
    Prop(String, String),
    Cmp(Cmp, Box<Ex>, Box<Ex>),
    And(Box<Ex>, Box<Ex>),
    Or(Box<Ex>, Box<Ex>),
    Not(Box<Ex>),
    IsNull(Box<Ex>),
    IsNotNull(Box<Ex>),
}
#[derive(Clone, Copy, Debug, PartialEq)]
enum AggFn {
    Count,
    Sum,
    Avg,
    Min,
    Max,
    Collect,
}
#[derive(Clone, Debug)]
struct Agg {
    f: AggFn,
    arg: Ex,
    distinct: bool,
}
#[derive(Clone, Debug)]
enum Ret {
    Plain(Vec<Ex>, bool),
    Agg(Vec<Ex>, Vec<Agg>),
}
#[derive(Clone, Debug)]
struct Query {
    start: NPat,
    hops: Vec<Hop>,
    wher: Option<Ex>,
    ret: Ret,
    order: Vec<(Ex, bool)>, // OEnv keys (expression over pattern variables, descending?)
    skip: Option<usize>,
    limit: Option<usize>,
}
impl Cmp {
    fn coq(self) -> &'static str {
        match self {
            Cmp::Eq => "OEq",
            Cmp::Ne => "ONe",
            Cmp::Lt => "OLt",
            Cmp::Le => "OLe",
            Cmp::Gt => "OGt",
            Cmp::Ge => "OGe",
        }
    }
    fn text(self) -> &'static str {
        match self {
            Cmp::Eq => "=",
            Cmp::Ne => "<>",
            Cmp::Lt => "<",
            Cmp::Le => "<=",
            Cmp::Gt => ">",
            Cmp::Ge => ">=",
        }
    }
}
impl Ex {
    fn coq(&self) -> String {
        match self {
            Ex::Lit(v) => format!("(ELit {})", v.coq()),
            Ex::Var(x) => format!("(EVar {})", cs(x)),
            Ex::Prop(x, k) => format!("(EProp {} {})", cs(x), cs(k)),
            Ex::Cmp(o, a, b) => format!("(ECmp {} {} {})", o.coq(), a.coq(), b.coq()),
            Ex::And(a, b) => format!("(EAnd {} {})", a.coq(), b.coq()),
            Ex::Or(a, b) => format!("(EOr {} {})", a.coq(), b.coq()),
            Ex::Not(a) => format!("(ENot {})", a.coq()),
            Ex::IsNull(a) => format!("(EIsNull {})", a.coq()),
            Ex::IsNotNull(a) => format!("(EIsNotNull {})", a.coq()),
        }
    }
    /// GQL / Cypher text
    fn text(&self) -> String {
        match self {
            Ex::Lit(v) => v.lit(),
            Ex::Var(x) => x.clone(),
            Ex::Prop(x, k) => format!("{x}.{k}"),
            Ex::Cmp(o, a, b) => format!("{} {} {}", a.text(), o.text(), b.text()),
            Ex::And(a, b) => format!("({} AND {})", a.text(), b.text()),
            Ex::Or(a, b) => format!("({} OR {})", a.text(), b.text()),
            Ex::Not(a) => format!("NOT ({})", a.text()),
            Ex::IsNull(a) => format!("{} IS NULL", a.text()),
            Ex::IsNotNull(a) => format!("{} IS NOT NULL", a.text()),
        }
    }
    fn has_isnull(&self) -> bool {
        match self {
            Ex::IsNull(_) | Ex::IsNotNull(_) => true,
            Ex::Cmp(_, a, b) | Ex::And(a, b) | Ex::Or(a, b) => a.has_isnull() || b.has_isnull(),
            Ex::Not(a) => a.has_isnull(),
            _ => false,
        }
    }
}
impl NPat {
    fn coq(&self) -> String {
        format!("(mkNP {} {})", cs(&self.var), coq::list(self.labels.iter().map(|l| cs(l))))
    }
    fn text(&self) -> String {
        let mut s = format!("({}", self.var);
        for l in &self.labels {
            let _ = write!(s, ":{l}");
        }
        s.push(')');
        s
    }
}
impl Query {
    fn coq(&self) -> String {
        let hops = coq::list(self.hops.iter().map(|h| {
            let d = match h.dir {
                Dir::Out => "Out",
                Dir::In => "In",
                Dir::Both => "Both",
            };
            let len = match &h.len {
                HLen::One => "HOne".to_string(),
                HLen::Var(a, Some(b)) => format!("(HVar {a}%nat (Some {b}%nat))"),
                HLen::Var(a, None) => format!("(HVar {a}%nat None)"),
            };
            format!("mkHop {d} {} {} {len} {}", opt_s(&h.ty), opt_s(&h.evar), h.to.coq())
        }));
        let w = match &self.wher {
            Some(e) => format!("(Some {})", e.coq()),
            None => "None".into(),
        };
        let ret = match &self.ret {
            Ret::Plain(items, d) => format!("(RPlain {} {d})", coq::list(items.iter().map(|e| e.coq()))),
            Ret::Agg(keys, aggs) => format!(
                "(RAgg {} {})",
                coq::list(keys.iter().map(|e| e.coq())),
                coq::list(aggs.iter().map(|a| {
                    let f = match a.f {
                        AggFn::Count => "ACountNN",
                        AggFn::Sum => "ASum",
                        AggFn::Avg => "AAvg",
                        AggFn::Min => "AMin",
                        AggFn::Max => "AMax",
                        AggFn::Collect => "ACollect",
                    };
                    format!("mkAgg {f} (Some {}) {} None", a.arg.coq(), a.distinct)
                }))
            ),
        };
        let ord = coq::list(self.order.iter().map(|(e, d)| format!("OEnv {} {d}", e.coq())));
        let on = |o: &Option<usize>| match o {
            Some(n) => format!("(Some {n}%nat)"),
            None => "None".into(),
        };
        format!(
            "(mkQ (mkPat {} {hops}) {w} {ret} {ord} {} {})",
            self.start.coq(),
            on(&self.skip),
            on(&self.limit)
        )
    }
    fn pattern_text(&self) -> String {
        let mut s = self.start.text();
        for h in &self.hops {
            let mut inner = String::new();
            if let Some(r) = &h.evar {
                inner.push_str(r);
            }
            if let Some(t) = &h.ty {
                let _ = write!(inner, ":{t}");
            }
            match &h.len {
                HLen::One => {}
                HLen::Var(a, Some(b)) => {
                    let _ = write!(inner, "*{a}..{b}");
                }
                HLen::Var(1, None) => inner.push('*'),
                HLen::Var(a, None) => {
                    let _ = write!(inner, "*{a}..");
                }
            }
            let (l, r) = match h.dir {
                Dir::Out => ("-", "->"),
                Dir::In => ("<-", "-"),
                Dir::Both => ("-", "-"),
            };
            let _ = write!(s, "{l}[{inner}]{r}{}", h.to.text());
        }
        s
    }
    /// GQL and Cypher share this text (ORDER BY on expressions over the pattern variables)
    fn gql_text(&self) -> String {
        let mut s = format!("MATCH {}", self.pattern_text());
        if let Some(w) = &self.wher {
            let _ = write!(s, " WHERE {}", w.text());
        }
        s.push_str(" RETURN ");
        match &self.ret {
            Ret::Plain(items, d) => {
                if *d {
                    s.push_str("DISTINCT ");
                }
                s.push_str(&items.iter().map(|e| e.text()).collect::<Vec<_>>().join(", "));
            }
            Ret::Agg(keys, aggs) => {
                let mut parts: Vec<String> = keys.iter().map(|e| e.text()).collect();
                for a in aggs {
                    let f = match a.f {
                        AggFn::Count => "count",
                        AggFn::Sum => "sum",
                        AggFn::Avg => "avg",
                        AggFn::Min => "min",
                        AggFn::Max => "max",
                        AggFn::Collect => "collect",
                    };
                    parts.push(format!("{f}({}{})", if a.distinct { "DISTINCT " } else { "" }, a.arg.text()));
                }
                s.push_str(&parts.join(", "));
            }
        }
        if !self.order.is_empty() {
            let ks: Vec<String> =
                self.order.iter().map(|(e, d)| format!("{}{}", e.text(), if *d { " DESC" } else { "" })).collect();
            let _ = write!(s, " ORDER BY {}", ks.join(", "));
        }
        if let Some(n) = self.skip {
            let _ = write!(s, " SKIP {n}");
        }
        if let Some(n) = self.limit {
            let _ = write!(s, " LIMIT {n}");
        }
        s
    }
    fn vars_node(&self) -> Vec<String> {
        let mut v = vec![self.start.var.clone()];
        v.extend(self.hops.iter().map(|h| h.to.var.clone()));
        v
    }
    fn has_expand(&self) -> bool {
        !self.hops.is_empty()
    }
}

// ------------------------------------------------------------------------------------------ execution
#[derive(Clone, Copy, Debug, PartialEq)]
enum Lang {
    Gql,
    Cypher,
    Gremlin,
    Graphql,
}
impl Lang {
    fn name(self) -> &'static str {
        match self {
            Lang::Gql => "gql",
            Lang::Cypher => "cypher",
            Lang::Gremlin => "gremlin",
            Lang::Graphql => "graphql",
        }
    }
    fn coq(self) -> &'static str {
        match self {
            Lang::Gql => "LGql",
            Lang::Cypher => "LCypher",
            Lang::Gremlin => "LGremlin",
            Lang::Graphql => "LGraphql",
        }
    }
}
#[derive(Clone)]
struct Obs {
    rows: Option<(Vec<String>, Vec<Vec<Value>>)>,
    err: String,
}
impl Obs {
    fn coq(&self) -> Option<String> {
        match &self.rows {
            None => Some("ObsErr".into()),
            Some((cols, rows)) => {
                let mut rs = vec![];
                for r in rows {
                    let mut vs = vec![];
                    for v in r {
                        vs.push(value_coq(v)?);
                    }
                    rs.push(coq::list(vs));
                }
                Some(format!("(ObsRows {} {})", coq::list(cols.iter().map(|c| cs(c))), coq::list(rs)))
            }
        }
    }
    fn brief(&self) -> String {
        match &self.rows {
            None => format!("ERR {}", self.err.lines().next().unwrap_or("")),
            Some((c, r)) => {
                let mut s = format!("{:?} {} rows:", c, r.len());
                for row in r.iter().take(12) {
                    let _ = write!(s, " {:?}", row);
                }
                s
            }
        }
    }
}
/// translate -> bind -> optimize exactly as session.rs does on a cache miss
fn compile(w: &World, lang: Lang, text: &str) -> Result<LogicalPlan, String> {
    let r = catch(std::panic::AssertUnwindSafe(|| -> Result<LogicalPlan, String> {
        let lp = match lang {
            Lang::Gql => grafeo_engine::query::gql_translator::translate(text),
            Lang::Cypher => grafeo_engine::query::cypher_translator::translate(text),
            Lang::Gremlin => grafeo_engine::query::gremlin_translator::translate(text),
            Lang::Graphql => grafeo_engine::query::graphql_translator::translate(text),
        }
        .map_err(|e| e.to_string())?;
        let mut b = Binder::new();
        b.bind(&lp).map_err(|e| e.to_string())?;
        Optimizer::from_store(w.db.store()).optimize(lp).map_err(|e| e.to_string())
    }));
    match r {
        Ok(x) => x,
        Err(p) => Err(format!("PANIC {p}")),
    }
}
/// the plan as the translator emits it, before binding and optimization (compared with the plan
/// shape the theorems are about; the optimizer's rewrites are C09's subject)
fn translate_only(lang: Lang, text: &str) -> Option<LogicalPlan> {
    let r = catch(std::panic::AssertUnwindSafe(|| match lang {
        Lang::Gql => grafeo_engine::query::gql_translator::translate(text).ok(),
        Lang::Cypher => grafeo_engine::query::cypher_translator::translate(text).ok(),
        Lang::Gremlin => grafeo_engine::query::gremlin_translator::translate(text).ok(),
        Lang::Graphql => grafeo_engine::query::graphql_translator::translate(text).ok(),
    }));
    r.ok().flatten()
}
fn execute(w: &World, lang: Lang, text: &str) -> Obs {
    let s = w.db.session();
    let r = catch(std::panic::AssertUnwindSafe(|| match lang {
        Lang::Gql => s.execute(text),
        Lang::Cypher => s.execute_cypher(text),
        Lang::Gremlin => s.execute_gremlin(text),
        Lang::Graphql => s.execute_graphql(text),
    }));
    match r {
        Ok(Ok(q)) => Obs { rows: Some((q.columns.clone(), q.rows.clone())), err: String::new() },
        Ok(Err(e)) => Obs { rows: None, err: e.to_string() },
        Err(p) => Obs { rows: None, err: format!("PANIC {p}") },
    }
}
fn opts_coq(w: &World) -> String {
    format!("(opts_engine {})", w.factorized)
}

/// which physical paths the planner takes for this plan on this store (for the evidence tags)
fn path_tags(w: &World, p: &LogicalOperator, tags: &mut Vec<String>) {
    fn chain_len(p: &LogicalOperator) -> usize {
        match p {
            LogicalOperator::Expand(x) if x.min_hops == 1 && x.max_hops == Some(1) => 1 + chain_len(&x.input),
            _ => 0,
        }
    }
    fn eq_keys(e: &LogicalExpression, x: &str, out: &mut Vec<String>) {
        if let LogicalExpression::Binary { left, op, right } = e {
            match op {
                BinaryOp::And => {
                    eq_keys(left, x, out);
                    eq_keys(right, x, out);
                }
                BinaryOp::Eq => match (left.as_ref(), right.as_ref()) {
                    (LogicalExpression::Property { variable, property }, LogicalExpression::Literal(_))
                    | (LogicalExpression::Literal(_), LogicalExpression::Property { variable, property })
                        if variable == x =>
                    {
                        out.push(property.clone())
                    }
                    _ => {}
                },
                _ => {}
            }
        }
    }
    fn is_range(e: &LogicalExpression) -> bool {
        match e {
            LogicalExpression::Binary { left, op, right } => match op {
                BinaryOp::Lt | BinaryOp::Le | BinaryOp::Gt | BinaryOp::Ge => matches!(
                    (left.as_ref(), right.as_ref()),
                    (LogicalExpression::Property { .. }, LogicalExpression::Literal(_))
                        | (LogicalExpression::Literal(_), LogicalExpression::Property { .. })
                ),
                BinaryOp::And => is_range(left) && is_range(right),
                _ => false,
            },
            _ => false,
        }
    }
    match p {
        LogicalOperator::Expand(x) => {
            let c = chain_len(p);
            if c >= 2 {
                tags.push(if w.factorized { "path:factorized-chain".into() } else { "path:flat-chain".into() });
            } else if c == 0 {
                tags.push("path:varlen-expand".into());
            } else {
                tags.push("path:expand".into());
            }
            let mut q: &LogicalOperator = p;
            while let LogicalOperator::Expand(y) = q {
                if !(y.min_hops == 1 && y.max_hops == Some(1)) {
                    break;
                }
                q = &y.input;
            }
            if c >= 2 {
                path_tags(w, q, tags);
            } else {
                path_tags(w, &x.input, tags);
            }
        }
        LogicalOperator::Filter(f) => {
            if let LogicalOperator::NodeScan(s) = f.input.as_ref() {
                let mut ks = vec![];
                eq_keys(&f.predicate, &s.variable, &mut ks);
                if ks.iter().any(|k| w.indexed.contains(k)) {
                    tags.push("path:index".into());
                } else if is_range(&f.predicate) {
                    tags.push("path:range".into());
                } else {
                    tags.push("path:scan-filter".into());
                }
            } else {
                tags.push("path:filter".into());
            }
            path_tags(w, &f.input, tags);
        }
        LogicalOperator::Aggregate(a) => {
            if w.factorized && a.group_by.is_empty() && chain_len(&a.input) >= 2 {
                tags.push("path:factorized-aggregate?".into());
            }
            path_tags(w, &a.input, tags);
        }
        LogicalOperator::Return(r) => path_tags(w, &r.input, tags),
        LogicalOperator::Project(r) => path_tags(w, &r.input, tags),
        LogicalOperator::Sort(r) => path_tags(w, &r.input, tags),
        LogicalOperator::Skip(r) => path_tags(w, &r.input, tags),
        LogicalOperator::Limit(r) => path_tags(w, &r.input, tags),
        LogicalOperator::Distinct(r) => path_tags(w, &r.input, tags),
        _ => {}
    }
}

// ------------------------------------------------------------------------------------------ emission
#[derive(Default)]
struct Rec {
    k: String,
    input: String,
    coq: Option<String>,
    show: Option<String>,
    orc: Option<String>,
    shape: Option<String>,
    ks: (Vec<String>, String),
    nt: bool,
    imp: String,
    tags: Vec<String>,
    msg: String,
}
struct Sink {
    w: std::io::BufWriter<Box<dyn std::io::Write>>,
    n: usize,
}
impl Sink {
    fn emit(&mut self, r: &Rec) {
        let mut s = String::new();
        let _ = write!(s, "{{\"k\":\"{}\",\"in\":\"{}\"", json_escape(&r.k), json_escape(&r.input));
        if let Some(q) = &r.coq {
            let _ = write!(s, ",\"coq\":\"{}\"", json_escape(q));
        }
        if let Some(q) = &r.show {
            let _ = write!(s, ",\"show\":\"{}\"", json_escape(q));
        }
        if let Some(q) = &r.orc {
            let _ = write!(s, ",\"orc\":\"{}\"", json_escape(q));
        }
        if let Some(q) = &r.shape {
            let _ = write!(s, ",\"shape\":\"{}\"", json_escape(q));
        }
        let _ = write!(s, ",\"oracle\":\"na\"");
        if !r.msg.is_empty() {
            let _ = write!(s, ",\"msg\":\"{}\"", json_escape(&r.msg));
        }
        if !r.ks.0.is_empty() {
            s.push_str(",\"kids\":[");
            for (i, id) in r.ks.0.iter().enumerate() {
                if i > 0 {
                    s.push(',');
                }
                let _ = write!(s, "\"{}\"", json_escape(id));
            }
            let _ = write!(s, "],\"kall\":\"{}\"", json_escape(&r.ks.1));
        }
        let _ = write!(s, ",\"nt\":{},\"impl\":\"{}\",\"tags\":[", r.nt, json_escape(&r.imp));
        for (i, t) in r.tags.iter().enumerate() {
            if i > 0 {
                s.push(',');
            }
            let _ = write!(s, "\"{}\"", json_escape(t));
        }
        s.push_str("]}");
        writeln!(self.w, "{}", s).expect("write");
        self.n += 1;
    }
}

/// finding classes: ids and ONE Coq term evaluating to the list of their truth values
fn c08_ks(st: &str, q: &str, lang: Lang, plan: Option<&str>) -> (Vec<String>, String) {
    let mut ids: Vec<String> =
        ["C08-K1", "C08-K2", "C08-K3", "C08-K4", "C08-K5", "C08-K6", "C08-K7", "C08-K10", "C08-K9", "C08-K12", "C08-K13", "C08-K14"].iter().map(|s| s.to_string()).collect();
    let mut t = format!(
        "let st := {st} in let q := {q} in [k1_unbounded q; k2_type_case st q; k3_both_selfloop st q; k4_zero_hops q; \
         k5_return_distinct q; k6_gql_limit_first {} q; k7_multi_label q; k10_edge_prop_materialised q; \
         k9_cypher_order_cols {} q; k12_cypher_count {} q; k13_typed_result st q; k14_gremlin_dedup {} q",
        lang.coq(),
        lang.coq(),
        lang.coq(),
        lang.coq()
    );
    if let Some(p) = plan {
        ids.push("C08-K11".into());
        ids.push("C08-K8".into());
        let _ = write!(t, "; k11_stacked_filters {p}; k_c10_any st {p}");
    }
    t.push(']');
    (ids, t)
}
fn c10_ks(st: &str, plan: &str) -> (Vec<String>, String) {
    (
        ["C10-K1", "C10-K2", "C10-K3", "C10-K4", "C10-K5", "C10-K6", "C10-K7", "C10-K8", "C10-K9"].iter().map(|s| s.to_string()).collect(),
        format!(
            "let st := {st} in let p := {plan} in [k_zone_edge st p; k_index_residual st p; k_index_num st p; \
             k_range_num st p; k_fact_missing_level st p; k_fact_type_case st p; k_fact_not_path p; k_fact_agg_distinct p; k_zone_ne st p]"
        ),
    )
}

/// one execution of `text` on `w`: correspondence record (+ the C08 oracle when `q` is given)
struct Run {
    obs: Obs,
    obs_coq: Option<String>,
    plan_coq: Option<String>,
    st_coq: String,
    tags: Vec<String>,
}
fn run_one(w: &World, lang: Lang, text: &str, cached_plan: Option<&LogicalPlan>) -> (Run, Option<LogicalPlan>) {
    let st_coq = w.store_coq();
    let compiled = match cached_plan {
        Some(p) => Ok(p.clone()),
        None => compile(w, lang, text),
    };
    let obs = execute(w, lang, text);
    let mut tags = vec![format!("lang:{}", lang.name())];
    let plan_coq = match &compiled {
        Ok(p) => {
            path_tags(w, &p.root, &mut tags);
            let c = plan_coq(&p.root);
            if c.is_none() {
                tags.push("plan:outside-modelled-fragment".into());
            }
            c
        }
        Err(_) => {
            tags.push("front-end:rejected".into());
            None
        }
    };
    if obs.rows.is_none() && compiled.is_ok() {
        tags.push("engine:error".into());
    }
    let obs_coq = obs.coq();
    (Run { obs, obs_coq, plan_coq, st_coq, tags }, compiled.ok())
}

// ------------------------------------------------------------------------------------------ generators
const TYPES: [&str; 3] = ["R", "r", "S"];
fn gen_graph(r: &mut Rng, tier_big: bool) -> Vec<Op> {
    let n = match r.below(100) {
        0..=2 => 0,
        3..=7 => 1,
        8..=67 => 2 + r.below(5),
        _ => 7 + r.below(6),
    } as usize;
    let acyclic = r.chance(3, 10);
    let node_w = r.below(5); // 0,1: no node w; 2: low; 3: high; 4: mixed
    let mut ops = vec![];
    for i in 0..n {
        let labels: Vec<String> = match r.below(10) {
            0..=4 => vec!["A".into()],
            5..=7 => vec!["B".into()],
            8 => vec!["A".into(), "B".into()],
            _ => vec![],
        };
        let mut props = vec![("u".to_string(), V::Int(100 + i as i64))];
        match r.below(10) {
            0..=5 => props.push(("x".into(), V::Int(r.range(0, 5)))),
            6 => props.push(("x".into(), V::Half(r.range(0, 10)))),
            7 => props.push(("x".into(), V::Str((*r.pick(&["a", "b", "ab"])).to_string()))),
            _ => {}
        }
        if !r.chance(3, 10) {
            props.push(("y".into(), V::Int(r.range(0, 9))));
        }
        if r.chance(1, 4) {
            props.push(("b".into(), V::Bool(r.chance(1, 2))));
        }
        match node_w {
            2 => props.push(("w".into(), V::Int(r.range(0, 3)))),
            3 => props.push(("w".into(), V::Int(r.range(10, 20)))),
            4 => {
                if r.chance(1, 2) {
                    props.push(("w".into(), V::Int(r.range(0, 20))))
                }
            }
            _ => {}
        }
        ops.push(Op::Node(labels, props));
    }
    if n == 0 {
        return ops;
    }
    let max_e = if tier_big { 31 } else { 19 };
    let m = match r.below(10) {
        0 => 0,
        1..=5 => r.below(8),
        _ => r.below(max_e),
    } as usize;
    let mut prev: Option<(usize, usize)> = None;
    for j in 0..m {
        let (s, d) = if let (Some(p), true) = (prev, r.chance(15, 100)) {
            p
        } else if !acyclic && r.chance(1, 10) {
            let s = r.below(n as u64) as usize;
            (s, s)
        } else {
            let a = r.below(n as u64) as usize;
            let b = r.below(n as u64) as usize;
            if acyclic {
                if a == b {
                    continue;
                }
                (a.min(b), a.max(b))
            } else {
                (a, b)
            }
        };
        prev = Some((s, d));
        let ty = match r.below(100) {
            0..=49 => "R",
            50..=64 => "r",
            _ => "S",
        };
        let mut props = vec![("eu".to_string(), V::Int(500 + j as i64))];
        if !r.chance(1, 5) {
            props.push(("w".into(), V::Int(r.range(0, 12))));
        }
        ops.push(Op::Edge(s, d, ty.to_string(), props));
    }
    ops
}
fn gen_lit(r: &mut Rng, key: &str) -> V {
    match key {
        "u" => V::Int(100 + r.range(0, 12)),
        "eu" => V::Int(500 + r.range(0, 20)),
        "b" => V::Bool(r.chance(1, 2)),
        "x" => match r.below(10) {
            0..=5 => V::Int(r.range(0, 5)),
            6 | 7 => V::Half(r.range(0, 10)),
            _ => V::Str((*r.pick(&["a", "b", "ab"])).to_string()),
        },
        "w" => match r.below(10) {
            0 => V::Half(r.range(0, 24)),
            _ => V::Int(r.range(0, 20)),
        },
        _ => V::Int(r.range(0, 9)),
    }
}
fn gen_leaf(r: &mut Rng, nvars: &[String], evars: &[String]) -> Ex {
    let on_edge = !evars.is_empty() && r.chance(4, 10);
    let (var, key) = if on_edge {
        (r.pick(evars).clone(), *r.pick(&["w", "w", "eu"]))
    } else {
        (r.pick(nvars).clone(), *r.pick(&["x", "x", "y", "w", "u"]))
    };
    let op = *r.pick(&[Cmp::Eq, Cmp::Eq, Cmp::Ne, Cmp::Lt, Cmp::Le, Cmp::Gt, Cmp::Gt, Cmp::Ge]);
    let lit = Ex::Lit(gen_lit(r, key));
    let p = Ex::Prop(var, key.to_string());
    if r.chance(1, 8) { Ex::Cmp(op, Box::new(lit), Box::new(p)) } else { Ex::Cmp(op, Box::new(p), Box::new(lit)) }
}
fn gen_pred(r: &mut Rng, nvars: &[String], evars: &[String]) -> Ex {
    match r.below(20) {
        0..=9 => gen_leaf(r, nvars, evars),
        10..=13 => Ex::And(Box::new(gen_leaf(r, nvars, evars)), Box::new(gen_leaf(r, nvars, evars))),
        14..=16 => Ex::Or(Box::new(gen_leaf(r, nvars, evars)), Box::new(gen_leaf(r, nvars, evars))),
        17 | 18 => Ex::Not(Box::new(gen_leaf(r, nvars, evars))),
        _ => {
            let v = r.pick(nvars).clone();
            let k = *r.pick(&["x", "y", "w"]);
            if r.chance(1, 2) {
                Ex::IsNull(Box::new(Ex::Prop(v, k.into())))
            } else {
                Ex::IsNotNull(Box::new(Ex::Prop(v, k.into())))
            }
        }
    }
}
fn gen_npat(r: &mut Rng, var: &str, start: bool) -> NPat {
    let labels: Vec<String> = if start {
        match r.below(20) {
            0..=5 => vec![],
            6..=13 => vec!["A".into()],
            14..=17 => vec!["B".into()],
            18 => vec!["A".into(), "B".into()],
            _ => vec!["B".into(), "A".into()],
        }
    } else {
        match r.below(20) {
            0..=11 => vec![],
            12..=15 => vec!["A".into()],
            16..=18 => vec!["B".into()],
            _ => vec!["A".into(), "B".into()],
        }
    };
    NPat { var: var.to_string(), labels }
}
fn gen_query(r: &mut Rng, w: &World) -> Query {
    let k = match r.below(20) {
        0 | 1 => 0,
        2..=10 => 1,
        11..=17 => 2,
        _ => 3,
    };
    let nnames = ["a", "b", "c", "d"];
    let enames = ["r", "s", "t"];
    let start = gen_npat(r, nnames[0], true);
    let mut hops = vec![];
    let small = w.edges.len() <= 10;
    let mut have_var = false;
    for i in 0..k {
        let dir = match r.below(4) {
            0 | 1 => Dir::Out,
            2 => Dir::In,
            _ => Dir::Both,
        };
        let ty = match r.below(20) {
            0..=6 => None,
            7..=13 => Some("R".to_string()),
            14 | 15 => Some("r".to_string()),
            _ => Some("S".to_string()),
        };
        let mut len = HLen::One;
        if !have_var && r.chance(15, 100) {
            len = match r.below(8) {
                0 | 1 => HLen::Var(1, Some(2)),
                2 => HLen::Var(2, Some(2)),
                3 => HLen::Var(0, Some(1)),
                4 => {
                    if small { HLen::Var(1, Some(3)) } else { HLen::Var(1, Some(2)) }
                }
                5 => {
                    if small { HLen::Var(2, Some(3)) } else { HLen::Var(2, Some(2)) }
                }
                _ => {
                    if w.acyclic_forward() && dir != Dir::Both {
                        if r.chance(1, 2) { HLen::Var(1, None) } else { HLen::Var(2, None) }
                    } else {
                        HLen::Var(1, Some(2))
                    }
                }
            };
            have_var = true;
        }
        let evar = if len == HLen::One && r.chance(3, 4) { Some(enames[i].to_string()) } else { None };
        hops.push(Hop { dir, ty, evar, len, to: gen_npat(r, nnames[i + 1], false) });
    }
    let mut q = Query { start, hops, wher: None, ret: Ret::Plain(vec![], false), order: vec![], skip: None, limit: None };
    let nvars = q.vars_node();
    let evars: Vec<String> = q.hops.iter().filter_map(|h| h.evar.clone()).collect();
    if r.chance(7, 10) {
        q.wher = Some(gen_pred(r, &nvars, &evars));
    }
    if r.chance(7, 10) {
        let cnt = 1 + r.below(3);
        let mut items = vec![];
        for _ in 0..cnt {
            let use_edge = !evars.is_empty() && r.chance(1, 3);
            let v = if use_edge { r.pick(&evars).clone() } else { r.pick(&nvars).clone() };
            if r.chance(1, 2) {
                items.push(Ex::Var(v));
            } else {
                let key = if use_edge { *r.pick(&["w", "eu"]) } else { *r.pick(&["x", "y", "u", "w"]) };
                items.push(Ex::Prop(v, key.to_string()));
            }
        }
        q.ret = Ret::Plain(items, r.chance(15, 100));
    } else {
        let mut keys = vec![];
        if r.chance(1, 2) {
            let v = r.pick(&nvars).clone();
            keys.push(if r.chance(1, 2) { Ex::Prop(v, "y".into()) } else { Ex::Var(v) });
        }
        let mut aggs = vec![];
        for _ in 0..(1 + r.below(2)) {
            let use_edge = !evars.is_empty() && r.chance(1, 2);
            let v = if use_edge { r.pick(&evars).clone() } else { r.pick(&nvars).clone() };
            let f = *r.pick(&[AggFn::Count, AggFn::Count, AggFn::Sum, AggFn::Avg, AggFn::Min, AggFn::Max, AggFn::Collect]);
            let arg = match f {
                AggFn::Count => {
                    if r.chance(1, 2) { Ex::Var(v) } else { Ex::Prop(v, if use_edge { "w".into() } else { "y".into() }) }
                }
                AggFn::Sum | AggFn::Avg => Ex::Prop(v, if use_edge { (*r.pick(&["w", "eu"])).into() } else { (*r.pick(&["y", "u", "w"])).into() }),
                _ => Ex::Prop(v, if use_edge { "w".into() } else { (*r.pick(&["x", "y", "w"])).into() }),
            };
            let distinct = f == AggFn::Count && r.chance(1, 6);
            aggs.push(Agg { f, arg, distinct });
        }
        q.ret = Ret::Agg(keys, aggs);
    }
    // ORDER BY: a total key exists when every hop is a single edge with a variable
    let total_possible = q.hops.iter().all(|h| h.len == HLen::One && h.evar.is_some());
    if let Ret::Plain(_, false) = q.ret {
        if r.chance(35, 100) {
            if total_possible {
                let desc = r.chance(1, 2);
                let mut ord = vec![(Ex::Prop(q.start.var.clone(), "u".into()), desc)];
                for h in &q.hops {
                    ord.push((Ex::Prop(h.evar.clone().unwrap(), "eu".into()), r.chance(1, 2)));
                }
                if r.chance(1, 4) {
                    ord.insert(0, (Ex::Prop(q.start.var.clone(), "y".into()), r.chance(1, 2)));
                }
                q.order = ord;
                if r.chance(6, 10) {
                    if r.chance(1, 2) {
                        q.skip = Some(r.below(4) as usize);
                    }
                    if r.chance(3, 4) {
                        q.limit = Some(r.below(6) as usize);
                    }
                }
            } else if r.chance(1, 2) {
                q.order = vec![(Ex::Prop(q.start.var.clone(), "u".into()), r.chance(1, 2))];
            }
        }
    } else if r.chance(1, 10) {
        // LIMIT with DISTINCT / aggregation: only the GQL placement defect is reachable (K6)
        q.limit = Some(1 + r.below(3) as usize);
    }
    q
}
fn order_total(q: &Query) -> bool {
    !q.order.is_empty() && q.hops.iter().all(|h| h.len == HLen::One && h.evar.is_some()) && q.order.len() >= 1 + q.hops.len()
}
/// rough bound on the number of rows of variable-length hops (walk counting), to keep cases small
fn walks_ok(w: &World, q: &Query) -> bool {
    for h in &q.hops {
        if let HLen::Var(_, mx) = &h.len {
            let maxh = mx.unwrap_or(12).max(1) as usize;
            // count walks by DP over directions
            let ids: Vec<u64> = w.nodes.keys().copied().collect();
            let mut cnt: BTreeMap<u64, u64> = ids.iter().map(|i| (*i, 1u64)).collect();
            let mut total: u64 = 0;
            for _ in 0..maxh {
                let mut nxt: BTreeMap<u64, u64> = ids.iter().map(|i| (*i, 0u64)).collect();
                for e in w.edges.values() {
                    let c_s = cnt[&e.src];
                    let c_d = cnt[&e.dst];
                    match h.dir {
                        Dir::Out => *nxt.get_mut(&e.dst).unwrap() += c_s,
                        Dir::In => *nxt.get_mut(&e.src).unwrap() += c_d,
                        Dir::Both => {
                            *nxt.get_mut(&e.dst).unwrap() += c_s;
                            *nxt.get_mut(&e.src).unwrap() += c_d;
                        }
                    }
                }
                total = total.saturating_add(nxt.values().sum::<u64>());
                cnt = nxt;
                if total > 400 {
                    return false;
                }
            }
        }
    }
    true
}

// ------------------------------------------------------------------------------------------ renderings
fn render(q: &Query, lang: Lang) -> Option<String> {
    match lang {
        Lang::Gql | Lang::Cypher => Some(q.gql_text()),
        Lang::Gremlin => render_gremlin(q),
        Lang::Graphql => render_graphql(q),
    }
}

// ------------------------------------------------------------------------------------------ C08
fn c08_case(sink: &mut Sink, w: &World, q: &Query, kind: &str, extra_tags: &[String]) {
    let qc = q.coq();
    let mode = if order_total(q) { "Seq" } else { "Bag" };
    let nt = q.has_expand() && q.wher.is_some() && w.has_selfloop_or_parallel();
    let mut results: Vec<(Lang, Obs)> = vec![];
    let mut xl_obs: Vec<String> = vec![];
    let mut xl_ids: Vec<String> = vec![];
    let mut xl_terms: Vec<String> = vec![];
    for lang in [Lang::Gql, Lang::Cypher, Lang::Gremlin, Lang::Graphql] {
        let Some(text) = render(q, lang) else { continue };
        let (run, _) = run_one(w, lang, &text, None);
        let mut rec = Rec { k: format!("{kind}-{}", lang.name()), nt, ..Default::default() };
        rec.input = format!("{} | {} | {}", lang.name(), text, w.describe());
        rec.imp = run.obs.brief();
        rec.tags = run.tags.clone();
        rec.tags.extend_from_slice(extra_tags);
        rec.tags.push(format!("hops:{}", q.hops.len()));
        rec.tags.push(format!("mode:{mode}"));
        if q.hops.iter().any(|h| h.len != HLen::One) {
            rec.tags.push("pattern:var-length".into());
        }
        if q.hops.iter().any(|h| h.dir == Dir::Both) {
            rec.tags.push("pattern:undirected".into());
        }
        match &q.ret {
            Ret::Plain(_, true) => rec.tags.push("clause:distinct".into()),
            Ret::Agg(..) => rec.tags.push("clause:aggregate".into()),
            _ => {}
        }
        if !q.order.is_empty() {
            rec.tags.push("clause:order-by".into());
        }
        if q.skip.is_some() || q.limit.is_some() {
            rec.tags.push("clause:skip-limit".into());
        }
        if w.nodes.is_empty() {
            rec.tags.push("graph:empty".into());
        }
        if w.has_selfloop_or_parallel() {
            rec.tags.push("graph:selfloop-or-parallel".into());
        }
        if let (Some(p), Some(o)) = (&run.plan_coq, &run.obs_coq) {
            rec.coq = Some(format!("chk_run_k5 {} {} {} {mode} {}", opts_coq(w), run.st_coq, p, o));
            rec.show = Some(format!("show_run {} {} {}", opts_coq(w), run.st_coq, p));
            if lang == Lang::Gql || lang == Lang::Cypher {
                if let Some(raw) = translate_only(lang, &text).and_then(|lp| plan_coq(&lp.root)) {
                    rec.shape = Some(format!("plan_shape_ok {} {} {}", lang.coq(), qc, raw));
                }
            }
        }
        // an engine error on a query the front end accepted counts as a wrong answer; a query the
        // front end rejects (syntax outside what this language implements) is not judged
        let compiled = !run.tags.iter().any(|t| t == "front-end:rejected");
        if let (true, Some(o)) = (run.obs.rows.is_some() || compiled, &run.obs_coq) {
            // SKIP / LIMIT without a total order: which rows survive is not defined
            let undefined_cut = (q.skip.is_some() || q.limit.is_some()) && !order_total(q);
            rec.orc = Some(if undefined_cut {
                rec.tags.push("oracle:sub-multiset".into());
                format!("orc_answer_cut {} {} {}", run.st_coq, qc, o)
            } else {
                format!("orc_answer {} {} {mode} {}", run.st_coq, qc, o)
            });
            rec.ks = c08_ks(&run.st_coq, &qc, lang, run.plan_coq.as_deref());
            rec.msg = "engine rows differ from the declarative answer (bindings + clauses) of the abstract query".into();
            if run.obs.rows.is_some() {
                results.push((lang, run.obs.clone()));
                xl_obs.push(o.clone());
                xl_ids.extend(rec.ks.0.iter().cloned());
                xl_terms.push(format!("({})", rec.ks.1));
            }
        }
        sink.emit(&rec);
    }
    // the same question in two languages (support; each language is also compared with the declarative answer)
    // (not when SKIP / LIMIT cut an unordered result: two engines may legitimately keep different rows)
    if results.len() >= 2 && !((q.skip.is_some() || q.limit.is_some()) && !order_total(q)) {
        let canon = |o: &Obs| {
            let mut v: Vec<String> = o.rows.as_ref().unwrap().1.iter().map(|r| format!("{:?}", r)).collect();
            if mode == "Bag" {
                v.sort();
            }
            v
        };
        let first = canon(&results[0].1);
        let agree = results.iter().all(|(_, o)| canon(o) == first);
        let mut rec = Rec { k: format!("{kind}-xlang"), nt, ..Default::default() };
        rec.input = format!("{} | {}", q.gql_text(), w.describe());
        rec.imp = results.iter().map(|(l, o)| format!("{}={}", l.name(), o.brief())).collect::<Vec<_>>().join(" ; ");
        rec.tags.push(format!("xlang:{}", results.iter().map(|(l, _)| l.name()).collect::<Vec<_>>().join("+")));
        rec.tags.push(if agree { "xlang:agree".into() } else { "xlang:differ".into() });
        rec.orc = Some(format!("xlang_same {mode} {}", coq::list(xl_obs.iter().cloned())));
        rec.ks = (xl_ids, xl_terms.join(" ++ "));
        rec.msg = "the same question asked in two languages gets different answers".into();
        sink.emit(&rec);
    }
}

fn mk_world(ops: &[Op], factorized: bool) -> World {
    World::build(factorized, ops)
}

fn c08_corpus(sink: &mut Sink) {
    let np = |v: &str, ls: &[&str]| NPat { var: v.into(), labels: ls.iter().map(|s| s.to_string()).collect() };
    let node = |ls: &[&str], u: i64| Op::Node(ls.iter().map(|s| s.to_string()).collect(), vec![("u".into(), V::Int(u))]);
    let plain = |items: Vec<Ex>| Ret::Plain(items, false);
    // K2: type case
    let ops = vec![node(&["A"], 100), node(&["A"], 101), Op::Edge(0, 1, "KNOWS".into(), vec![("eu".into(), V::Int(500))])];
    let w = mk_world(&ops, true);
    let q = Query {
        start: np("a", &[]),
        hops: vec![Hop { dir: Dir::Out, ty: Some("knows".into()), evar: Some("r".into()), len: HLen::One, to: np("b", &[]) }],
        wher: None,
        ret: plain(vec![Ex::Var("a".into()), Ex::Var("r".into()), Ex::Var("b".into())]),
        order: vec![],
        skip: None,
        limit: None,
    };
    c08_case(sink, &w, &q, "c08w-k2", &["corpus".into()]);
    // K3: undirected pattern on a self-loop
    let ops = vec![node(&["A"], 100), Op::Edge(0, 0, "R".into(), vec![("eu".into(), V::Int(500))])];
    let w = mk_world(&ops, true);
    let mut q3 = q.clone();
    q3.hops[0].dir = Dir::Both;
    q3.hops[0].ty = None;
    c08_case(sink, &w, &q3, "c08w-k3", &["corpus".into()]);
    // K1: unbounded on a 14-node chain
    let mut ops: Vec<Op> = (0..14).map(|i| node(&["N"], 100 + i)).collect();
    for i in 0..13 {
        ops.push(Op::Edge(i, i + 1, "NEXT".into(), vec![("eu".into(), V::Int(500 + i as i64))]));
    }
    let w = mk_world(&ops, true);
    let mut q1 = q.clone();
    q1.hops[0] = Hop { dir: Dir::Out, ty: Some("NEXT".into()), evar: None, len: HLen::Var(1, None), to: np("b", &[]) };
    q1.ret = plain(vec![Ex::Var("a".into()), Ex::Var("b".into())]);
    c08_case(sink, &w, &q1, "c08w-k1", &["corpus".into()]);
    // K4: *0..1
    let mut q4 = q1.clone();
    q4.hops[0].len = HLen::Var(0, Some(1));
    let w4 = mk_world(&ops[..16.min(ops.len())].to_vec(), true);
    c08_case(sink, &w4, &q4, "c08w-k4", &["corpus".into()]);
    // K5 / K6 / K7 / K10 on a small graph
    let ops = vec![
        Op::Node(vec!["A".into()], vec![("u".into(), V::Int(100)), ("w".into(), V::Int(70))]),
        Op::Node(vec!["A".into(), "B".into()], vec![("u".into(), V::Int(101)), ("w".into(), V::Int(71))]),
        Op::Node(vec!["B".into()], vec![("u".into(), V::Int(102))]),
        Op::Edge(0, 1, "R".into(), vec![("eu".into(), V::Int(500)), ("w".into(), V::Int(1))]),
        Op::Edge(0, 2, "R".into(), vec![("eu".into(), V::Int(501)), ("w".into(), V::Int(2))]),
        Op::Edge(1, 2, "R".into(), vec![("eu".into(), V::Int(502)), ("w".into(), V::Int(3))]),
    ];
    let w = mk_world(&ops, true);
    let base = Query {
        start: np("a", &[]),
        hops: vec![Hop { dir: Dir::Out, ty: Some("R".into()), evar: Some("r".into()), len: HLen::One, to: np("b", &[]) }],
        wher: None,
        ret: Ret::Plain(vec![Ex::Var("a".into())], true),
        order: vec![],
        skip: None,
        limit: None,
    };
    c08_case(sink, &w, &base, "c08w-k5", &["corpus".into()]);
    let mut q6 = base.clone();
    q6.ret = plain(vec![Ex::Prop("a".into(), "u".into()), Ex::Var("b".into())]);
    q6.order = vec![(Ex::Prop("a".into(), "u".into()), true), (Ex::Prop("r".into(), "eu".into()), true)];
    q6.limit = Some(1);
    c08_case(sink, &w, &q6, "c08w-k6", &["corpus".into()]);
    // K6 (remaining part): DISTINCT applied after LIMIT in GQL
    let mut q6d = base.clone();
    q6d.limit = Some(2);
    c08_case(sink, &w, &q6d, "c08w-k6d", &["corpus".into()]);
    // K14: Gremlin dedup() over paths
    let mut q14 = base.clone();
    q14.ret = Ret::Plain(vec![Ex::Var("b".into())], true);
    c08_case(sink, &w, &q14, "c08w-k14", &["corpus".into()]);
    let mut q7 = base.clone();
    q7.start = np("a", &["A", "B"]);
    q7.hops.clear();
    q7.ret = plain(vec![Ex::Var("a".into())]);
    c08_case(sink, &w, &q7, "c08w-k7", &["corpus".into()]);
    let mut q10 = base.clone();
    q10.ret = plain(vec![Ex::Prop("r".into(), "w".into())]);
    q10.order = vec![(Ex::Prop("a".into(), "u".into()), false), (Ex::Prop("r".into(), "eu".into()), false)];
    c08_case(sink, &w, &q10, "c08w-k10", &["corpus".into()]);
    // K8 (= C10-K1 seen from C08): edge predicate pruned by the node column
    let ops = vec![
        Op::Node(vec!["A".into()], vec![("u".into(), V::Int(100)), ("w".into(), V::Int(1))]),
        Op::Node(vec!["A".into()], vec![("u".into(), V::Int(101))]),
        Op::Edge(0, 1, "R".into(), vec![("eu".into(), V::Int(500)), ("w".into(), V::Int(9))]),
    ];
    let w = mk_world(&ops, true);
    let mut q8 = base.clone();
    q8.wher = Some(Ex::Cmp(Cmp::Gt, Box::new(Ex::Prop("r".into(), "w".into())), Box::new(Ex::Lit(V::Int(5)))));
    q8.ret = plain(vec![Ex::Var("a".into()), Ex::Var("b".into())]);
    c08_case(sink, &w, &q8, "c08w-k8", &["corpus".into()]);
    // K9 / K12 / K13 and the repaired K11 on one graph
    let ops = vec![
        Op::Node(vec!["A".into()], vec![("u".into(), V::Int(100)), ("x".into(), V::Str("b".into())), ("y".into(), V::Int(5))]),
        Op::Node(vec!["A".into()], vec![("u".into(), V::Int(101)), ("x".into(), V::Str("a".into()))]),
        Op::Node(vec!["B".into()], vec![("u".into(), V::Int(102)), ("x".into(), V::Half(2)), ("y".into(), V::Int(9))]),
        Op::Edge(0, 1, "R".into(), vec![("eu".into(), V::Int(500)), ("w".into(), V::Int(1))]),
        Op::Edge(1, 2, "R".into(), vec![("eu".into(), V::Int(501)), ("w".into(), V::Int(2))]),
    ];
    let w = mk_world(&ops, true);
    let single = Query { start: np("a", &["A"]), hops: vec![], wher: None, ret: plain(vec![Ex::Var("a".into())]), order: vec![], skip: None, limit: None };
    let mut q9 = single.clone();
    q9.order = vec![(Ex::Prop("a".into(), "u".into()), false)];
    c08_case(sink, &w, &q9, "c08w-k9", &["corpus".into()]);
    let mut q12 = single.clone();
    q12.ret = Ret::Agg(vec![], vec![Agg { f: AggFn::Count, arg: Ex::Prop("a".into(), "y".into()), distinct: false }]);
    c08_case(sink, &w, &q12, "c08w-k12", &["corpus".into()]);
    let mut q13 = single.clone();
    q13.ret = Ret::Agg(vec![], vec![Agg { f: AggFn::Min, arg: Ex::Prop("a".into(), "x".into()), distinct: false }]);
    c08_case(sink, &w, &q13, "c08w-k13", &["corpus".into()]);
    let mut q13b = single.clone();
    q13b.start = np("a", &[]);
    q13b.ret = Ret::Agg(vec![Ex::Prop("a".into(), "y".into())], vec![Agg { f: AggFn::Max, arg: Ex::Prop("a".into(), "x".into()), distinct: false }]);
    c08_case(sink, &w, &q13b, "c08w-k13", &["corpus".into()]);
    // K11 (repaired by df57ccb): a WHERE filter stacked on the label filter of the target; must pass now
    let mut q11 = base.clone();
    q11.hops[0].to = np("b", &["B"]);
    q11.wher = Some(Ex::Cmp(Cmp::Eq, Box::new(Ex::Prop("a".into(), "u".into())), Box::new(Ex::Lit(V::Int(100)))));
    q11.ret = plain(vec![Ex::Var("b".into())]);
    c08_case(sink, &w, &q11, "c08w-k11-fixed", &["corpus".into()]);
}

fn main() {
    quiet_panics();
    let a = parse_args();
    if let Some(i) = a.rest.iter().position(|x| x == "--probe") {
        probe(&a.rest[i + 1]);
        return;
    }
    let prop = a.rest.iter().position(|x| x == "--prop").and_then(|i| a.rest.get(i + 1)).cloned().unwrap_or("C08".into());
    let b: Box<dyn std::io::Write> = match &a.out {
        Some(p) => Box::new(std::fs::File::create(p).expect("create out")),
        None => Box::new(std::io::stdout()),
    };
    let mut sink = Sink { w: std::io::BufWriter::new(b), n: 0 };
    let mut rng = Rng::new(a.seed ^ if prop == "C10" { 0xC10 } else { 0xC08 });
    let big = a.tier == "thorough";
    if prop == "C08" {
        c08_corpus(&mut sink);
        while sink.n < a.cases {
            let ops = gen_graph(&mut rng, big);
            let fact = !rng.chance(1, 4);
            let w = mk_world(&ops, fact);
            for _ in 0..4 {
                let mut q = gen_query(&mut rng, &w);
                match rng.below(10) {
                    0..=2 => simplify(&mut rng, &mut q, 1),
                    3..=4 => simplify(&mut rng, &mut q, 2),
                    _ => {}
                }
                if !walks_ok(&w, &q) {
                    continue;
                }
                c08_case(&mut sink, &w, &q, "c08", &[]);
            }
        }
    } else {
        c10_main(&mut sink, &mut rng, a.cases, big);
    }
    sink.w.flush().expect("flush");
}

// ------------------------------------------------------------------------------------------ Gremlin / GraphQL
fn conj_leaves(e: &Ex, out: &mut Vec<(String, String, Cmp, V)>) -> bool {
    match e {
        Ex::And(a, b) => conj_leaves(a, out) && conj_leaves(b, out),
        Ex::Cmp(op, a, b) => match (a.as_ref(), b.as_ref()) {
            (Ex::Prop(v, k), Ex::Lit(l)) => {
                out.push((v.clone(), k.clone(), *op, l.clone()));
                true
            }
            _ => false,
        },
        _ => false,
    }
}
fn gremlin_lit(v: &V) -> Option<String> {
    Some(match v {
        V::Int(i) => format!("{i}"),
        V::Half(h) => format!("{:.1}", *h as f64 / 2.0),
        V::Str(s) => format!("'{s}'"),
        V::Bool(b) => format!("{b}"),
        V::Null => return None,
    })
}
/// linear traversals: g.V() [.hasLabel] [.has]* ( .out/.in/.both(type) [.hasLabel] [.has]* )* then
/// values / count / sum / min / max / mean / dedup / order / skip / limit on the LAST vertex
fn render_gremlin(q: &Query) -> Option<String> {
    let nvars = q.vars_node();
    let last = nvars.last().unwrap().clone();
    let mut leaves = vec![];
    if let Some(w) = &q.wher {
        if !conj_leaves(w, &mut leaves) {
            return None;
        }
    }
    if leaves.iter().any(|(v, ..)| !nvars.contains(v)) {
        return None;
    }
    let steps_for = |var: &str, labels: &[String]| -> Option<String> {
        let mut s = String::new();
        match labels.len() {
            0 => {}
            1 => {
                let _ = write!(s, ".hasLabel('{}')", labels[0]);
            }
            _ => return None,
        }
        for (v, k, op, l) in &leaves {
            if v == var {
                let lit = gremlin_lit(l)?;
                let p = match op {
                    Cmp::Eq => lit,
                    Cmp::Ne => format!("neq({lit})"),
                    Cmp::Lt => format!("lt({lit})"),
                    Cmp::Le => format!("lte({lit})"),
                    Cmp::Gt => format!("gt({lit})"),
                    Cmp::Ge => format!("gte({lit})"),
                };
                let _ = write!(s, ".has('{k}', {p})");
            }
        }
        Some(s)
    };
    let mut s = String::from("g.V()");
    s.push_str(&steps_for(&q.start.var, &q.start.labels)?);
    for h in &q.hops {
        if h.len != HLen::One {
            return None;
        }
        let st = match h.dir {
            Dir::Out => "out",
            Dir::In => "in",
            Dir::Both => "both",
        };
        match &h.ty {
            Some(t) => {
                let _ = write!(s, ".{st}('{t}')");
            }
            None => {
                let _ = write!(s, ".{st}()");
            }
        }
        s.push_str(&steps_for(&h.to.var, &h.to.labels)?);
    }
    // ORDER BY / SKIP / LIMIT only on the single-variable pattern with its unique key
    if !q.order.is_empty() {
        if !(q.hops.is_empty() && q.order.len() == 1) {
            return None;
        }
        match &q.order[0] {
            (Ex::Prop(v, k), desc) if *v == last => {
                let _ = write!(s, ".order().by('{k}'{})", if *desc { ", desc" } else { "" });
            }
            _ => return None,
        }
        if let Some(n) = q.skip {
            let _ = write!(s, ".skip({n})");
        }
        if let Some(n) = q.limit {
            let _ = write!(s, ".limit({n})");
        }
    } else if q.skip.is_some() || q.limit.is_some() {
        return None;
    }
    match &q.ret {
        Ret::Plain(items, distinct) => {
            if items.len() != 1 {
                return None;
            }
            match &items[0] {
                Ex::Var(v) if *v == last => {
                    if *distinct {
                        s.push_str(".dedup()");
                    }
                }
                Ex::Prop(v, k) if *v == last => {
                    let _ = write!(s, ".values('{k}')");
                    if *distinct {
                        s.push_str(".dedup()");
                    }
                }
                _ => return None,
            }
        }
        Ret::Agg(keys, aggs) => {
            if !keys.is_empty() || aggs.len() != 1 {
                return None;
            }
            let a = &aggs[0];
            if a.distinct {
                return None;
            }
            match (&a.f, &a.arg) {
                (AggFn::Count, Ex::Var(v)) if *v == last => s.push_str(".count()"),
                (f, Ex::Prop(v, k)) if *v == last && *f != AggFn::Count && *f != AggFn::Collect => {
                    let name = match f {
                        AggFn::Sum => "sum",
                        AggFn::Avg => "mean",
                        AggFn::Min => "min",
                        _ => "max",
                    };
                    let _ = write!(s, ".values('{k}').{name}()");
                }
                _ => return None,
            }
        }
    }
    Some(s)
}
/// { label(k: lit ...) { field ... TYPE(k: lit ...) { field ... } } }: labelled root, outgoing typed
/// single hops, equality arguments, scalar fields; fields are emitted level by level
fn render_graphql(q: &Query) -> Option<String> {
    if q.start.labels.len() != 1 || !q.order.is_empty() || q.skip.is_some() || q.limit.is_some() {
        return None;
    }
    let nvars = q.vars_node();
    let mut leaves = vec![];
    if let Some(w) = &q.wher {
        if !conj_leaves(w, &mut leaves) {
            return None;
        }
    }
    if leaves.iter().any(|(v, _, op, l)| !nvars.contains(v) || *op != Cmp::Eq || matches!(l, V::Null)) {
        return None;
    }
    let items = match &q.ret {
        Ret::Plain(items, false) => items,
        _ => return None,
    };
    // items must be properties of node variables, in level order
    let mut depth_prev = 0usize;
    let mut per_level: Vec<Vec<String>> = vec![vec![]; nvars.len()];
    for it in items {
        match it {
            Ex::Prop(v, k) => {
                let d = nvars.iter().position(|x| x == v)?;
                if d < depth_prev {
                    return None;
                }
                depth_prev = d;
                if per_level[d].contains(k) {
                    return None;
                }
                per_level[d].push(k.clone());
            }
            _ => return None,
        }
    }
    if per_level.last().unwrap().is_empty() {
        return None;
    }
    let args = |var: &str| -> Option<String> {
        let mut a = vec![];
        for (v, k, _, l) in &leaves {
            if v == var {
                let lit = match l {
                    V::Str(s) => format!("\"{s}\""),
                    other => gremlin_lit(other)?,
                };
                a.push(format!("{k}: {lit}"));
            }
        }
        Some(if a.is_empty() { String::new() } else { format!("({})", a.join(", ")) })
    };
    let mut s = format!("{{ {}{} {{", q.start.labels[0].to_lowercase(), args(&q.start.var)?);
    for k in &per_level[0] {
        let _ = write!(s, " {k}");
    }
    for (i, h) in q.hops.iter().enumerate() {
        if h.len != HLen::One || h.dir != Dir::Out || !h.to.labels.is_empty() {
            return None;
        }
        let t = h.ty.as_ref()?;
        let _ = write!(s, " {t}{} {{", args(&h.to.var)?);
        for k in &per_level[i + 1] {
            let _ = write!(s, " {k}");
        }
    }
    for _ in 0..=q.hops.len() {
        s.push_str(" }");
    }
    s.push_str(" }");
    Some(s)
}
/// reshape a generated query so that it lies in the fragment Gremlin (mode 1) or GraphQL (mode 2) can say
fn simplify(r: &mut Rng, q: &mut Query, mode: u64) {
    let nvars = q.vars_node();
    for h in q.hops.iter_mut() {
        h.len = HLen::One;
        if h.to.labels.len() > 1 {
            h.to.labels.truncate(1);
        }
        if mode == 2 {
            h.dir = Dir::Out;
            h.to.labels.clear();
            if h.ty.is_none() {
                h.ty = Some((*r.pick(&["R", "S", "r"])).to_string());
            }
        }
    }
    if q.start.labels.len() > 1 {
        q.start.labels.truncate(1);
    }
    if mode == 2 && q.start.labels.is_empty() {
        q.start.labels.push((*r.pick(&["A", "B"])).to_string());
    }
    // WHERE: a conjunction of 0..2 leaves on node variables
    let mut w: Option<Ex> = None;
    for _ in 0..r.below(3) {
        let v = r.pick(&nvars).clone();
        let k = *r.pick(&["x", "y", "w", "u"]);
        let op = if mode == 2 { Cmp::Eq } else { *r.pick(&[Cmp::Eq, Cmp::Ne, Cmp::Lt, Cmp::Le, Cmp::Gt, Cmp::Ge]) };
        let leaf = Ex::Cmp(op, Box::new(Ex::Prop(v, k.to_string())), Box::new(Ex::Lit(gen_lit(r, k))));
        w = Some(match w {
            None => leaf,
            Some(p) => Ex::And(Box::new(p), Box::new(leaf)),
        });
    }
    q.wher = w;
    q.order.clear();
    q.skip = None;
    q.limit = None;
    let last = nvars.last().unwrap().clone();
    if mode == 2 {
        let mut items = vec![];
        for v in &nvars {
            for k in ["u", "x", "y", "w"] {
                if r.chance(1, 3) {
                    items.push(Ex::Prop(v.clone(), k.to_string()));
                }
            }
        }
        if !items.iter().any(|e| matches!(e, Ex::Prop(v, _) if *v == last)) {
            items.push(Ex::Prop(last, "u".into()));
        }
        q.ret = Ret::Plain(items, false);
    } else {
        q.ret = match r.below(10) {
            0..=2 => Ret::Plain(vec![Ex::Var(last)], r.chance(1, 4)),
            3..=6 => Ret::Plain(vec![Ex::Prop(last, (*r.pick(&["u", "x", "y", "w"])).to_string())], r.chance(1, 4)),
            7 => Ret::Agg(vec![], vec![Agg { f: AggFn::Count, arg: Ex::Var(last), distinct: false }]),
            _ => Ret::Agg(
                vec![],
                vec![Agg { f: *r.pick(&[AggFn::Sum, AggFn::Min, AggFn::Max, AggFn::Avg]), arg: Ex::Prop(last, (*r.pick(&["y", "u", "w"])).to_string()), distinct: false }],
            ),
        };
        if q.hops.is_empty() && matches!(q.ret, Ret::Plain(_, false)) && r.chance(1, 3) {
            q.order = vec![(Ex::Prop(q.start.var.clone(), "u".into()), r.chance(1, 2))];
            if r.chance(1, 2) {
                q.skip = Some(r.below(3) as usize);
            }
            if r.chance(1, 2) {
                q.limit = Some(r.below(5) as usize);
            }
        }
    }
}

// ------------------------------------------------------------------------------------------ C10
fn mode_of(q: &Query) -> &'static str {
    if order_total(q) { "Seq" } else { "Bag" }
}
/// record of one execution inside a C10 scenario; `other` = the observation it must agree with
fn c10_rec(
    sink: &mut Sink,
    kind: &str,
    w: &World,
    lang: Lang,
    text: &str,
    run: &Run,
    mode: &str,
    other: Option<(&str, &Obs)>,
    nt: bool,
    extra: &[String],
) {
    let mut rec = Rec { k: kind.to_string(), nt, ..Default::default() };
    rec.input = format!("{} | {} | {}", lang.name(), text, w.describe());
    rec.imp = run.obs.brief();
    rec.tags = run.tags.clone();
    rec.tags.extend_from_slice(extra);
    if let (Some(p), Some(o)) = (&run.plan_coq, &run.obs_coq) {
        rec.coq = Some(format!("chk_run_k5 {} {} {} {mode} {}", opts_coq(w), run.st_coq, p, o));
        rec.show = Some(format!("show_run {} {} {}", opts_coq(w), run.st_coq, p));
    }
    if let (Some((what, ob)), Some(o)) = (other, &run.obs_coq) {
        if let Some(o2) = ob.coq() {
            rec.orc = Some(format!("orc_same {mode} {} {}", o2, o));
            rec.msg = format!("the same query text returns different rows: {what}; reference = {}", ob.brief());
            if let Some(p) = &run.plan_coq {
                rec.ks = c10_ks(&run.st_coq, p);
            }
        }
    }
    sink.emit(&rec);
}
/// an equality on a value that some node really has (70%), Int/Float flavours swapped now and then
fn eq_leaf_w(r: &mut Rng, w: &World, var: &str, key: &str) -> Ex {
    let vals: Vec<V> = w.nodes.values().filter_map(|n| n.props.get(key).cloned()).collect();
    let mut lit = if !vals.is_empty() && r.chance(7, 10) { r.pick(&vals).clone() } else { gen_lit(r, key) };
    if r.chance(1, 6) {
        lit = match lit {
            V::Int(i) => V::Half(2 * i),
            V::Half(h) if h % 2 == 0 => V::Int(h / 2),
            o => o,
        };
    }
    Ex::Cmp(Cmp::Eq, Box::new(Ex::Prop(var.into(), key.into())), Box::new(Ex::Lit(lit)))
}
fn eq_leaf(r: &mut Rng, var: &str, key: &str) -> Ex {
    Ex::Cmp(Cmp::Eq, Box::new(Ex::Prop(var.into(), key.into())), Box::new(Ex::Lit(gen_lit(r, key))))
}
fn plain_ret(r: &mut Rng, q: &Query) -> Ret {
    let nvars = q.vars_node();
    let mut items = vec![Ex::Var(q.start.var.clone())];
    for _ in 0..r.below(3) {
        let v = r.pick(&nvars).clone();
        items.push(if r.chance(1, 2) { Ex::Var(v) } else { Ex::Prop(v, (*r.pick(&["x", "y", "u", "w"])).to_string()) });
    }
    Ret::Plain(items, false)
}
/// S1: property index present / absent on every subset of the keys the query filters by equality
fn c10_index(sink: &mut Sink, r: &mut Rng, ops: &[Op]) {
    let w0 = World::build(true, ops);
    let mut q = gen_query(r, &w0);
    for h in q.hops.iter_mut() {
        h.len = HLen::One;
    }
    if q.hops.len() > 1 {
        q.hops.truncate(1);
    }
    q.order.clear();
    q.skip = None;
    q.limit = None;
    q.ret = plain_ret(r, &q);
    let a = q.start.var.clone();
    let keys: Vec<&str> = match r.below(4) {
        0 => vec!["x"],
        1 => vec!["y"],
        2 => vec!["x", "y"],
        _ => vec!["y", "w"],
    };
    let mut p: Option<Ex> = None;
    let mut add = |e: Ex, p: &mut Option<Ex>| {
        *p = Some(match p.take() {
            None => e,
            Some(x) => Ex::And(Box::new(x), Box::new(e)),
        })
    };
    for k in &keys {
        add(eq_leaf_w(r, &w0, &a, k), &mut p);
    }
    let nvars = q.vars_node();
    let evars: Vec<String> = q.hops.iter().filter_map(|h| h.evar.clone()).collect();
    let mut extra_tag = "pred:equalities-only";
    match r.below(6) {
        0 | 1 => {
            add(gen_leaf(r, &[a.clone()], &[]), &mut p);
            extra_tag = "pred:extra-conjunct";
        }
        2 => {
            add(Ex::Or(Box::new(gen_leaf(r, &[a.clone()], &[])), Box::new(gen_leaf(r, &nvars, &evars))), &mut p);
            extra_tag = "pred:extra-or";
        }
        3 => {
            add(Ex::Not(Box::new(gen_leaf(r, &[a.clone()], &[]))), &mut p);
            extra_tag = "pred:extra-not";
        }
        _ => {}
    }
    q.wher = p;
    let lang = if r.chance(3, 4) { Lang::Gql } else { Lang::Cypher };
    let text = q.gql_text();
    let mode = mode_of(&q);
    let (base, _) = run_one(&w0, lang, &text, None);
    c10_rec(sink, "c10-index", &w0, lang, &text, &base, mode, None, false, &["index:none".into(), extra_tag.into()]);
    let n = keys.len();
    for mask in 1..(1u32 << n) {
        let mut ops2 = ops.to_vec();
        let mut names = vec![];
        for (i, k) in keys.iter().enumerate() {
            if mask & (1 << i) != 0 {
                // half of the time the index exists before the data is loaded
                if r.chance(1, 2) {
                    ops2.insert(0, Op::Index(k.to_string()));
                } else {
                    ops2.push(Op::Index(k.to_string()));
                }
                names.push(*k);
            }
        }
        let w = World::build(true, &ops2);
        let (run, _) = run_one(&w, lang, &text, None);
        let took = run.tags.iter().any(|t| t == "path:index");
        c10_rec(
            sink,
            "c10-index",
            &w,
            lang,
            &text,
            &run,
            mode,
            Some(("with vs without property index", &base.obs)),
            took,
            &[format!("index:{}", names.join("+")), extra_tag.into()],
        );
    }
}
/// a literal on the boundary of what the nodes store under `key` (the column's min / max, or some
/// stored value): where inclusive / exclusive bounds and min/max pruning decide
fn boundary_lit(r: &mut Rng, w: &World, key: &str) -> Option<V> {
    let ints: Vec<i64> = w.nodes.values().filter_map(|n| match n.props.get(key) { Some(V::Int(i)) => Some(*i), _ => None }).collect();
    if ints.is_empty() {
        return None;
    }
    Some(V::Int(match r.below(5) {
        0 | 1 => *ints.iter().max().unwrap(),
        2 | 3 => *ints.iter().min().unwrap(),
        _ => *r.pick(&ints),
    }))
}
/// S2: the range path (a lone range / BETWEEN predicate on a scan) vs the generic filter (p AND p)
fn c10_range(sink: &mut Sink, r: &mut Rng, ops: &[Op]) {
    let w = World::build(true, ops);
    let mut q = gen_query(r, &w);
    for h in q.hops.iter_mut() {
        h.len = HLen::One;
    }
    if q.hops.len() > 1 {
        q.hops.truncate(1);
    }
    q.order.clear();
    q.skip = None;
    q.limit = None;
    q.ret = plain_ret(r, &q);
    let a = q.start.var.clone();
    let key = *r.pick(&["x", "x", "x", "y", "y", "w", "w", "u", "u", "b"]);
    let rng_leaf = |r: &mut Rng, ops: &[Cmp]| {
        let op = *r.pick(ops);
        let l = Ex::Lit(match (r.chance(1, 2), boundary_lit(r, &w, key)) {
            (true, Some(v)) => v,
            _ => gen_lit(r, key),
        });
        let p = Ex::Prop(a.clone(), key.to_string());
        if r.chance(1, 5) { Ex::Cmp(op, Box::new(l), Box::new(p)) } else { Ex::Cmp(op, Box::new(p), Box::new(l)) }
    };
    let p = if r.chance(1, 3) {
        Ex::And(Box::new(rng_leaf(r, &[Cmp::Gt, Cmp::Ge])), Box::new(rng_leaf(r, &[Cmp::Lt, Cmp::Le])))
    } else {
        rng_leaf(r, &[Cmp::Lt, Cmp::Le, Cmp::Gt, Cmp::Ge])
    };
    let lang = if r.chance(3, 4) { Lang::Gql } else { Lang::Cypher };
    q.wher = Some(p.clone());
    let t1 = q.gql_text();
    q.wher = Some(Ex::And(Box::new(p.clone()), Box::new(p)));
    let t2 = q.gql_text();
    let mode = mode_of(&q);
    let (generic, _) = run_one(&w, lang, &t2, None);
    c10_rec(sink, "c10-range", &w, lang, &t2, &generic, mode, None, false, &["range:p-and-p".into()]);
    let (run, _) = run_one(&w, lang, &t1, None);
    let took = run.tags.iter().any(|t| t == "path:range");
    c10_rec(sink, "c10-range", &w, lang, &t1, &run, mode, Some(("range path (p) vs generic filter (p AND p)", &generic.obs)), took, &["range:p".into()]);
}
/// S3: zone-map pruning.  (a) a predicate on an EDGE property while a same-named NODE column exists
/// (reference: the same graph with the node property renamed); (b) a predicate on a node property of
/// a labelled scan (reference: the same graph plus an isolated node of another label whose values
/// widen the column's min/max so that nothing is pruned)
fn c10_zone(sink: &mut Sink, r: &mut Rng, ops: &[Op]) {
    let on_edge = r.chance(1, 2);
    let mut ops1 = ops.to_vec();
    // make sure the node column `w` exists with a small or large range
    let lowhigh = r.chance(1, 2);
    if on_edge {
        for o in ops1.iter_mut() {
            if let Op::Node(_, props) = o {
                props.retain(|(k, _)| k != "w");
                if r.chance(2, 3) {
                    props.push(("w".into(), V::Int(if lowhigh { r.range(0, 3) } else { r.range(15, 20) })));
                }
            }
        }
    }
    // '<>' against a column whose comparable values all equal the literal (min = max = literal),
    // next to strings, NULLs and missing values
    let ne_case = !on_edge && r.chance(1, 4);
    if ne_case {
        for o in ops1.iter_mut() {
            if let Op::Node(_, props) = o {
                props.retain(|(k, _)| k != "x");
                match r.below(8) {
                    0..=3 => props.push(("x".into(), V::Int(3))),
                    4 => props.push(("x".into(), V::Str("a".into()))),
                    5 => props.push(("x".into(), V::Null)),
                    _ => {}
                }
            }
        }
    }
    let w1 = World::build(true, &ops1);
    let mut q = gen_query(r, &w1);
    for h in q.hops.iter_mut() {
        h.len = HLen::One;
        if h.evar.is_none() {
            h.evar = Some(format!("e{}", h.to.var));
        }
    }
    if q.hops.is_empty() && on_edge {
        return;
    }
    q.order.clear();
    q.skip = None;
    q.limit = None;
    q.ret = plain_ret(r, &q);
    if !on_edge && q.start.labels.is_empty() {
        q.start.labels.push("A".into());
    }
    for h in q.hops.iter_mut() {
        if !on_edge && h.to.labels.is_empty() {
            h.to.labels.push((*r.pick(&["A", "B"])).to_string());
        }
    }
    let evars: Vec<String> = q.hops.iter().filter_map(|h| h.evar.clone()).collect();
    let nvars = q.vars_node();
    let var = if on_edge { r.pick(&evars).clone() } else { r.pick(&nvars).clone() };
    let mut op = *r.pick(&[Cmp::Gt, Cmp::Ge, Cmp::Lt, Cmp::Le, Cmp::Eq, Cmp::Ne, Cmp::Ne]);
    let leaf = if on_edge && r.chance(6, 10) {
        // aimed at the pruning decision: the node column lies entirely on the wrong side of the literal
        let lit = if lowhigh { op = *r.pick(&[Cmp::Gt, Cmp::Ge]); r.range(4, 9) } else { op = *r.pick(&[Cmp::Lt, Cmp::Le]); r.range(8, 14) };
        Ex::Cmp(op, Box::new(Ex::Prop(var, "w".into())), Box::new(Ex::Lit(V::Int(lit))))
    } else if !on_edge && r.chance(1, 3) {
        // the heterogeneous column x (Int / Float / String values, often few of them)
        Ex::Cmp(op, Box::new(Ex::Prop(var, "x".into())), Box::new(Ex::Lit(gen_lit(r, "x"))))
    } else {
        let lit = match (!on_edge && r.chance(1, 2), boundary_lit(r, &w1, "w")) {
            (true, Some(v)) => v,
            _ => V::Int(r.range(0, 22)),
        };
        Ex::Cmp(op, Box::new(Ex::Prop(var, "w".into())), Box::new(Ex::Lit(lit)))
    };
    let leaf = if ne_case {
        Ex::Cmp(Cmp::Ne, Box::new(Ex::Prop(q.start.var.clone(), "x".into())), Box::new(Ex::Lit(V::Int(3))))
    } else {
        leaf
    };
    q.wher = Some(match r.below(4) {
        0 => Ex::And(Box::new(leaf), Box::new(gen_leaf(r, &nvars, &evars))),
        1 => Ex::Or(Box::new(leaf), Box::new(gen_leaf(r, &nvars, &evars))),
        _ => leaf,
    });
    if on_edge {
        fn rename(e: &mut Ex, nvars: &[String]) {
            match e {
                Ex::Prop(v, k) if k == "w" && nvars.contains(v) => *k = "y".into(),
                Ex::Cmp(_, a, b) | Ex::And(a, b) | Ex::Or(a, b) => {
                    rename(a, nvars);
                    rename(b, nvars);
                }
                Ex::Not(a) | Ex::IsNull(a) | Ex::IsNotNull(a) => rename(a, nvars),
                _ => {}
            }
        }
        if let Some(wh) = q.wher.as_mut() {
            rename(wh, &nvars);
        }
        if let Ret::Plain(items, _) = &mut q.ret {
            for it in items.iter_mut() {
                rename(it, &nvars);
            }
        }
    }
    let lang = if r.chance(3, 4) { Lang::Gql } else { Lang::Cypher };
    let text = q.gql_text();
    let mode = mode_of(&q);
    let ops2: Vec<Op> = if on_edge {
        ops1.iter()
            .map(|o| match o {
                Op::Node(l, props) => Op::Node(
                    l.clone(),
                    props.iter().map(|(k, v)| (if k == "w" { "w2".to_string() } else { k.clone() }, v.clone())).collect(),
                ),
                other => other.clone(),
            })
            .collect()
    } else {
        let mut o = ops1.clone();
        o.push(Op::Node(vec!["Z".into()], vec![("w".into(), V::Int(-1000)), ("x".into(), V::Int(-1000)), ("u".into(), V::Int(9000))]));
        o.push(Op::Node(vec!["Z".into()], vec![("w".into(), V::Int(1000)), ("x".into(), V::Int(1000)), ("u".into(), V::Int(9001))]));
        o
    };
    let w2 = World::build(true, &ops2);
    let (reference, _) = run_one(&w2, lang, &text, None);
    let tag = if on_edge { "zone:edge-predicate" } else { "zone:node-predicate" };
    c10_rec(sink, "c10-zone", &w2, lang, &text, &reference, mode, None, false, &[tag.into(), "zone:reference".into()]);
    let (run, _) = run_one(&w1, lang, &text, None);
    let differs_in_zone = true;
    c10_rec(
        sink,
        "c10-zone",
        &w1,
        lang,
        &text,
        &run,
        mode,
        Some((if on_edge { "node column of the same name present vs renamed" } else { "column min/max tight vs widened by an unrelated node" }, &reference.obs)),
        differs_in_zone,
        &[tag.into(), format!("zone:node-w-{}", if lowhigh { "low" } else { "high" })],
    );
}
/// S4: factorized execution on / off
fn c10_fact(sink: &mut Sink, r: &mut Rng, ops: &[Op]) {
    let won = World::build(true, ops);
    let woff = World::build(false, ops);
    let mut q = gen_query(r, &won);
    while q.hops.len() < 2 {
        let i = q.hops.len();
        q.hops.push(Hop {
            dir: *r.pick(&[Dir::Out, Dir::Out, Dir::In, Dir::Both]),
            ty: match r.below(4) {
                0 => None,
                1 => Some("r".into()),
                2 => Some("S".into()),
                _ => Some("R".into()),
            },
            evar: Some(["r", "s", "t"][i].to_string()),
            len: HLen::One,
            to: gen_npat(r, ["b", "c", "d"][i], false),
        });
    }
    for h in q.hops.iter_mut() {
        h.len = HLen::One;
        if r.chance(3, 4) {
            h.to.labels.clear(); // a label filter between two expands breaks the chain
        }
    }
    q.order.clear();
    q.skip = None;
    q.limit = None;
    let nvars = q.vars_node();
    let evars: Vec<String> = q.hops.iter().filter_map(|h| h.evar.clone()).collect();
    q.wher = if r.chance(1, 2) { Some(gen_pred(r, &nvars, &evars)) } else { None };
    q.ret = match r.below(4) {
        0 => {
            let d = r.chance(1, 3);
            Ret::Agg(vec![], vec![Agg { f: AggFn::Count, arg: Ex::Var(r.pick(&nvars).clone()), distinct: d }])
        }
        _ => plain_ret(r, &q),
    };
    let lang = if r.chance(3, 4) { Lang::Gql } else { Lang::Cypher };
    let text = q.gql_text();
    let mode = mode_of(&q);
    let (flat, _) = run_one(&woff, lang, &text, None);
    c10_rec(sink, "c10-fact", &woff, lang, &text, &flat, mode, None, false, &["fact:off".into()]);
    let (run, _) = run_one(&won, lang, &text, None);
    let took = run.tags.iter().any(|t| t == "path:factorized-chain" || t == "path:factorized-aggregate?");
    c10_rec(sink, "c10-fact", &won, lang, &text, &run, mode, Some(("factorized execution on vs off", &flat.obs)), took, &["fact:on".into()]);
}
/// S5: plan cache cold / warm with data changes (and index creation / removal) in between
fn c10_cache(sink: &mut Sink, r: &mut Rng, ops: &[Op]) {
    let fact = !r.chance(1, 4);
    let mut w = World::build(fact, ops);
    let mut q = gen_query(r, &w);
    for h in q.hops.iter_mut() {
        h.len = HLen::One;
    }
    q.skip = None;
    q.limit = None;
    if !order_total(&q) {
        q.order.clear();
    }
    if r.chance(1, 2) {
        // something an index / range path can serve
        let a = q.start.var.clone();
        let leaf = if r.chance(1, 2) {
            eq_leaf(r, &a, "y")
        } else {
            Ex::Cmp(*r.pick(&[Cmp::Gt, Cmp::Le]), Box::new(Ex::Prop(a, "y".into())), Box::new(Ex::Lit(V::Int(r.range(0, 9)))))
        };
        q.wher = Some(leaf);
    }
    let lang = if r.chance(3, 4) { Lang::Gql } else { Lang::Cypher };
    let text = q.gql_text();
    let mode = mode_of(&q);
    let (cold, plan) = run_one(&w, lang, &text, None);
    c10_rec(sink, "c10-cache", &w, lang, &text, &cold, mode, None, false, &["cache:cold".into()]);
    let Some(plan) = plan else { return };
    if cold.obs.rows.is_none() {
        return;
    }
    let mut script = ops.to_vec();
    for round in 0..(1 + r.below(2)) {
        // data changes
        let mut changes = vec![];
        let nn = w.nids.len();
        for _ in 0..(1 + r.below(4)) {
            let c = match r.below(8) {
                0 | 1 => Op::Node(
                    vec![(*r.pick(&["A", "B"])).to_string()],
                    vec![("u".into(), V::Int(300 + r.range(0, 50))), ("y".into(), V::Int(r.range(0, 9))), ("x".into(), V::Int(r.range(0, 5)))],
                ),
                2 if nn > 0 => Op::Edge(
                    r.below(nn as u64) as usize,
                    r.below(nn as u64) as usize,
                    (*r.pick(&TYPES)).to_string(),
                    vec![("eu".into(), V::Int(700 + r.range(0, 50))), ("w".into(), V::Int(r.range(0, 12)))],
                ),
                3 if nn > 0 => Op::DelNode(r.below(nn as u64) as usize),
                4 if !w.eids.is_empty() => Op::DelEdge(r.below(w.eids.len() as u64) as usize),
                5 if nn > 0 => Op::SetNode(r.below(nn as u64) as usize, (*r.pick(&["y", "x", "w"])).to_string(), V::Int(r.range(0, 9))),
                6 => {
                    if w.indexed.contains("y") { Op::DropIndex("y".into()) } else { Op::Index("y".into()) }
                }
                _ => Op::Node(vec!["A".into()], vec![("u".into(), V::Int(400 + r.range(0, 50)))]),
            };
            changes.push(c);
        }
        for c in &changes {
            w.apply(c);
            script.push(c.clone());
        }
        let fresh = World::build(fact, &script);
        let (reference, _) = run_one(&fresh, lang, &text, None);
        c10_rec(sink, "c10-cache", &fresh, lang, &text, &reference, mode, None, false, &["cache:fresh-db".into()]);
        let (warm, _) = run_one(&w, lang, &text, Some(&plan));
        let kinds: Vec<&str> = changes
            .iter()
            .map(|c| match c {
                Op::Node(..) => "insert-node",
                Op::Edge(..) => "insert-edge",
                Op::DelNode(..) => "delete-node",
                Op::DelEdge(..) => "delete-edge",
                Op::SetNode(..) => "set-prop",
                Op::Index(..) => "create-index",
                Op::DropIndex(..) => "drop-index",
            })
            .collect();
        let mut tags: Vec<String> = kinds.iter().map(|k| format!("change:{k}")).collect();
        tags.push(format!("cache:warm-{}", round + 1));
        c10_rec(sink, "c10-cache", &w, lang, &text, &warm, mode, Some(("cached plan after data changes vs a fresh database in the same state", &reference.obs)), true, &tags);
    }
}
fn c10_corpus(sink: &mut Sink, r: &mut Rng) {
    // K1 witness: MATCH (x)-[r:R]->(y) WHERE r.w > 5 with a node column w whose values are all <= 5
    let ops = vec![
        Op::Node(vec!["A".into()], vec![("u".into(), V::Int(100)), ("w".into(), V::Int(1))]),
        Op::Node(vec!["A".into()], vec![("u".into(), V::Int(101))]),
        Op::Edge(0, 1, "R".into(), vec![("eu".into(), V::Int(500)), ("w".into(), V::Int(9))]),
    ];
    let text = "MATCH (x)-[r:R]->(y) WHERE r.w > 5 RETURN x, r, y";
    let w1 = World::build(true, &ops);
    let ops2: Vec<Op> = ops
        .iter()
        .map(|o| match o {
            Op::Node(l, p) => Op::Node(l.clone(), p.iter().map(|(k, v)| (if k == "w" { "w2".into() } else { k.clone() }, v.clone())).collect()),
            o => o.clone(),
        })
        .collect();
    let w2 = World::build(true, &ops2);
    let (reference, _) = run_one(&w2, Lang::Gql, text, None);
    c10_rec(sink, "c10w-k1", &w2, Lang::Gql, text, &reference, "Bag", None, false, &["corpus".into()]);
    let (run, _) = run_one(&w1, Lang::Gql, text, None);
    c10_rec(sink, "c10w-k1", &w1, Lang::Gql, text, &run, "Bag", Some(("node column w present vs renamed", &reference.obs)), true, &["corpus".into()]);
    // K2 / K3: index path drops the residual conjunct / compares 1 and 1.0 structurally
    let ops = vec![
        Op::Node(vec!["A".into()], vec![("u".into(), V::Int(100)), ("x".into(), V::Int(1)), ("y".into(), V::Int(5))]),
        Op::Node(vec!["A".into()], vec![("u".into(), V::Int(101)), ("x".into(), V::Int(1)), ("y".into(), V::Int(7))]),
        Op::Node(vec!["A".into()], vec![("u".into(), V::Int(102)), ("x".into(), V::Half(2)), ("y".into(), V::Int(9))]),
    ];
    for (kind, text) in [("c10w-k2", "MATCH (n:A) WHERE (n.x = 1 AND n.y > 6) RETURN n"), ("c10w-k3", "MATCH (n:A) WHERE n.x = 1 RETURN n")] {
        let w0 = World::build(true, &ops);
        let (base, _) = run_one(&w0, Lang::Gql, text, None);
        c10_rec(sink, kind, &w0, Lang::Gql, text, &base, "Bag", None, false, &["corpus".into()]);
        let mut o = ops.clone();
        o.push(Op::Index("x".into()));
        let w = World::build(true, &o);
        let (run, _) = run_one(&w, Lang::Gql, text, None);
        c10_rec(sink, kind, &w, Lang::Gql, text, &run, "Bag", Some(("with vs without property index", &base.obs)), true, &["corpus".into()]);
    }
    // K4: range path with mixed Int / Float
    {
        let w = World::build(true, &ops);
        let (generic, _) = run_one(&w, Lang::Gql, "MATCH (n:A) WHERE (n.x > 0 AND n.x > 0) RETURN n", None);
        c10_rec(sink, "c10w-k4", &w, Lang::Gql, "p AND p", &generic, "Bag", None, false, &["corpus".into()]);
        let (run, _) = run_one(&w, Lang::Gql, "MATCH (n:A) WHERE n.x > 0 RETURN n", None);
        c10_rec(sink, "c10w-k4", &w, Lang::Gql, "MATCH (n:A) WHERE n.x > 0 RETURN n", &run, "Bag", Some(("range path vs generic filter", &generic.obs)), true, &["corpus".into()]);
    }
    // K4 (Bool): the range path compares booleans, the filter does not
    {
        let ops = vec![
            Op::Node(vec!["A".into()], vec![("u".into(), V::Int(100)), ("b".into(), V::Bool(true))]),
            Op::Node(vec!["A".into()], vec![("u".into(), V::Int(101)), ("b".into(), V::Bool(false))]),
            Op::Node(vec!["A".into()], vec![("u".into(), V::Int(102))]),
        ];
        let w = World::build(true, &ops);
        let (generic, _) = run_one(&w, Lang::Gql, "MATCH (n:A) WHERE (n.b >= false AND n.b >= false) RETURN n", None);
        c10_rec(sink, "c10w-k4b", &w, Lang::Gql, "p AND p", &generic, "Bag", None, false, &["corpus".into()]);
        let (run, _) = run_one(&w, Lang::Gql, "MATCH (n:A) WHERE n.b >= false RETURN n", None);
        c10_rec(sink, "c10w-k4b", &w, Lang::Gql, "MATCH (n:A) WHERE n.b >= false RETURN n", &run, "Bag", Some(("range path vs generic filter", &generic.obs)), true, &["corpus".into()]);
    }
    // K9: <> pruned by min = max = literal although the column holds a string and a NULL
    {
        let ops = vec![
            Op::Node(vec!["A".into()], vec![("u".into(), V::Int(100)), ("w".into(), V::Int(5))]),
            Op::Node(vec!["A".into()], vec![("u".into(), V::Int(101)), ("w".into(), V::Str("a".into()))]),
            Op::Node(vec!["A".into()], vec![("u".into(), V::Int(102)), ("w".into(), V::Null)]),
            Op::Node(vec!["A".into()], vec![("u".into(), V::Int(103))]),
        ];
        let text = "MATCH (n:A) WHERE n.w <> 5 RETURN n";
        let mut ops2 = ops.clone();
        ops2.push(Op::Node(vec!["Z".into()], vec![("u".into(), V::Int(900)), ("w".into(), V::Int(7))]));
        let w2 = World::build(true, &ops2);
        let (reference, _) = run_one(&w2, Lang::Gql, text, None);
        c10_rec(sink, "c10w-k9", &w2, Lang::Gql, text, &reference, "Bag", None, false, &["corpus".into()]);
        let w1 = World::build(true, &ops);
        let (run, _) = run_one(&w1, Lang::Gql, text, None);
        c10_rec(sink, "c10w-k9", &w1, Lang::Gql, text, &run, "Bag", Some(("column min/max tight vs widened by an unrelated node", &reference.obs)), true, &["corpus".into()]);
    }
    // K8: count(DISTINCT a) over a two-hop chain
    {
        let ops = vec![
            Op::Node(vec!["A".into()], vec![("u".into(), V::Int(100))]),
            Op::Node(vec!["A".into()], vec![("u".into(), V::Int(101))]),
            Op::Node(vec!["B".into()], vec![("u".into(), V::Int(102))]),
            Op::Node(vec!["B".into()], vec![("u".into(), V::Int(103))]),
            Op::Edge(0, 1, "R".into(), vec![]),
            Op::Edge(1, 2, "R".into(), vec![]),
            Op::Edge(1, 3, "R".into(), vec![]),
        ];
        let text = "MATCH (a)-[r]->(b)-[s]->(c) RETURN count(DISTINCT a)";
        let woff = World::build(false, &ops);
        let (flat, _) = run_one(&woff, Lang::Gql, text, None);
        c10_rec(sink, "c10w-k8", &woff, Lang::Gql, text, &flat, "Bag", None, false, &["corpus".into()]);
        let won = World::build(true, &ops);
        let (run, _) = run_one(&won, Lang::Gql, text, None);
        c10_rec(sink, "c10w-k8", &won, Lang::Gql, text, &run, "Bag", Some(("factorized execution on vs off", &flat.obs)), true, &["corpus".into()]);
    }
    // K5 / K6: factorized chain with an empty level / case-differing type at the second step
    let ops = vec![
        Op::Node(vec!["A".into()], vec![("u".into(), V::Int(100))]),
        Op::Node(vec!["A".into()], vec![("u".into(), V::Int(101))]),
        Op::Node(vec!["B".into()], vec![("u".into(), V::Int(102))]),
        Op::Edge(0, 1, "KNOWS".into(), vec![("eu".into(), V::Int(500))]),
        Op::Edge(1, 2, "KNOWS".into(), vec![("eu".into(), V::Int(501))]),
    ];
    for (kind, text) in [
        ("c10w-k5", "MATCH (a)-[r:KNOWS]->(b)-[s:OTHER]->(c) RETURN count(a)"),
        ("c10w-k5", "MATCH (a)-[r:KNOWS]->(b)-[s:OTHER]->(c) RETURN a, c"),
        ("c10w-k6", "MATCH (a)-[r:KNOWS]->(b)-[s:knows]->(c) RETURN a, c"),
    ] {
        let woff = World::build(false, &ops);
        let (flat, _) = run_one(&woff, Lang::Gql, text, None);
        c10_rec(sink, kind, &woff, Lang::Gql, text, &flat, "Bag", None, false, &["corpus".into()]);
        let won = World::build(true, &ops);
        let (run, _) = run_one(&won, Lang::Gql, text, None);
        c10_rec(sink, kind, &won, Lang::Gql, text, &run, "Bag", Some(("factorized execution on vs off", &flat.obs)), true, &["corpus".into()]);
    }
    // K7: two sibling expansions of one node (GraphQL sibling fields) planned as one factorized chain
    let ops = vec![
        Op::Node(vec!["A".into()], vec![("u".into(), V::Int(100))]),
        Op::Node(vec!["A".into()], vec![("u".into(), V::Int(101))]),
        Op::Node(vec!["B".into()], vec![("u".into(), V::Int(102))]),
        Op::Node(vec!["B".into()], vec![("u".into(), V::Int(103))]),
        Op::Edge(0, 1, "R".into(), vec![]),
        Op::Edge(0, 2, "R".into(), vec![]),
        Op::Edge(1, 2, "S".into(), vec![]),
        Op::Edge(2, 3, "R".into(), vec![]),
    ];
    {
        let text = "{ a { u S { u } R { u } } }";
        let woff = World::build(false, &ops);
        let (flat, _) = run_one(&woff, Lang::Graphql, text, None);
        c10_rec(sink, "c10w-k7", &woff, Lang::Graphql, text, &flat, "Bag", None, false, &["corpus".into()]);
        let won = World::build(true, &ops);
        let (run, _) = run_one(&won, Lang::Graphql, text, None);
        c10_rec(sink, "c10w-k7", &won, Lang::Graphql, text, &run, "Bag", Some(("factorized execution on vs off", &flat.obs)), true, &["corpus".into()]);
    }
    let _ = r;
}
fn c10_main(sink: &mut Sink, rng: &mut Rng, cases: usize, big: bool) {
    c10_corpus(sink, rng);
    let mut i = 0u64;
    while sink.n < cases {
        let ops = gen_graph(rng, big);
        match i % 5 {
            0 => c10_index(sink, rng, &ops),
            1 => c10_range(sink, rng, &ops),
            2 => c10_zone(sink, rng, &ops),
            3 => c10_fact(sink, rng, &ops),
            _ => c10_cache(sink, rng, &ops),
        }
        i += 1;
    }
}

// ------------------------------------------------------------------------------------------ probe / replay mode
/// `c08 --probe FILE`: a small script (new [nofact] | node L1,L2 k=v.. | edge s d T k=v.. | set i k=v |
/// delnode i | deledge i | index k | dropindex k | gql|cypher|gremlin|graphql TEXT) run against a fresh
/// database; prints rows and the dumped plan.  Used to reproduce a finding by hand.
fn probe(path: &str) {
    fn pv(s: &str) -> V {
        if s == "null" {
            V::Null
        } else if s == "true" {
            V::Bool(true)
        } else if s == "false" {
            V::Bool(false)
        } else if let Some(x) = s.strip_suffix('h') {
            V::Half(x.parse().unwrap())
        } else if let Some(x) = s.strip_prefix('\'') {
            V::Str(x.trim_end_matches('\'').into())
        } else {
            V::Int(s.parse().unwrap())
        }
    }
    let txt = std::fs::read_to_string(path).unwrap();
    let mut w = World::new(true);
    for line in txt.lines() {
        let line = line.trim();
        if line.is_empty() || line.starts_with('#') {
            continue;
        }
        let (cmd, rest) = line.split_once(' ').unwrap_or((line, ""));
        let kvs = |it: std::str::SplitWhitespace| -> Vec<(String, V)> {
            it.map(|kv| {
                let (k, v) = kv.split_once('=').unwrap();
                (k.to_string(), pv(v))
            })
            .collect()
        };
        match cmd {
            "new" => {
                w = World::new(!rest.contains("nofact"));
                println!("--- new {rest}");
            }
            "node" => {
                let mut it = rest.split_whitespace();
                let labels: Vec<String> = it.next().unwrap().split(',').filter(|l| *l != "-").map(|s| s.to_string()).collect();
                w.apply(&Op::Node(labels, kvs(it)));
            }
            "edge" => {
                let mut it = rest.split_whitespace();
                let s: usize = it.next().unwrap().parse().unwrap();
                let d: usize = it.next().unwrap().parse().unwrap();
                let t = it.next().unwrap().to_string();
                w.apply(&Op::Edge(s, d, t, kvs(it)));
            }
            "set" => {
                let mut it = rest.split_whitespace();
                let s: usize = it.next().unwrap().parse().unwrap();
                let kv = kvs(it);
                w.apply(&Op::SetNode(s, kv[0].0.clone(), kv[0].1.clone()));
            }
            "delnode" => w.apply(&Op::DelNode(rest.trim().parse().unwrap())),
            "deledge" => w.apply(&Op::DelEdge(rest.trim().parse().unwrap())),
            "index" => w.apply(&Op::Index(rest.trim().to_string())),
            "dropindex" => w.apply(&Op::DropIndex(rest.trim().to_string())),
            "gql" | "cypher" | "gremlin" | "graphql" => {
                let lang = match cmd {
                    "gql" => Lang::Gql,
                    "cypher" => Lang::Cypher,
                    "gremlin" => Lang::Gremlin,
                    _ => Lang::Graphql,
                };
                let (run, plan) = run_one(&w, lang, rest, None);
                println!("{cmd:8} {rest}\n   -> {}", run.obs.brief());
                if std::env::var("PLAN").is_ok() {
                    match plan {
                        Some(p) => println!("   plan {}", run.plan_coq.unwrap_or_else(|| format!("(unmodelled) {:?}", p.root))),
                        None => println!("   plan: front end rejected"),
                    }
                }
            }
            _ => println!("?? {line}"),
        }
    }
}
