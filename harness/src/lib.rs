//! Shared helpers for the gv-harness binaries (one binary per property).
//!
//! Every binary links the real grafeo crates from /repo's working tree, runs the
//! implementation on generated inputs and writes one JSON object per case on one line:
//!
//!   {"k": kind, "in": human readable input, "coq": Coq bool term (model == impl),
//!    "show": Coq term printing the model's output (optional),
//!    "oracle": "ok" | "fail" | "na", "msg": text, "kcoq": Coq bool term (finding class, optional),
//!    "kid": finding id the harness believes applies (optional), "nt": non-trivial?,
//!    "impl": implementation output, human readable}
//!
//! The Python driver evaluates the Coq terms with `coqc` (vm_compute) and decides.

use std::fmt::Write as _;
use std::io::Write as _;

/// splitmix64: every random choice of a run derives from one state.
#[derive(Clone)]
pub struct Rng(pub u64);

impl Rng {
    pub fn new(seed: u64) -> Self {
        Rng(seed.wrapping_mul(0x9E37_79B9_7F4A_7C15).wrapping_add(0x1234_5678_9ABC_DEF1))
    }
    pub fn next(&mut self) -> u64 {
        self.0 = self.0.wrapping_add(0x9E37_79B9_7F4A_7C15);
        let mut z = self.0;
        z = (z ^ (z >> 30)).wrapping_mul(0xBF58_476D_1CE4_E5B9);
        z = (z ^ (z >> 27)).wrapping_mul(0x94D0_49BB_1331_11EB);
        z ^ (z >> 31)
    }
    /// uniform in 0..n (n > 0)
    pub fn below(&mut self, n: u64) -> u64 {
        self.next() % n
    }
    pub fn range(&mut self, lo: i64, hi: i64) -> i64 {
        // inclusive
        let span = (hi as i128 - lo as i128 + 1) as u128;
        (lo as i128 + (self.next() as u128 % span) as i128) as i64
    }
    pub fn chance(&mut self, num: u64, den: u64) -> bool {
        self.below(den) < num
    }
    pub fn pick<'a, T>(&mut self, xs: &'a [T]) -> &'a T {
        &xs[self.below(xs.len() as u64) as usize]
    }
    pub fn fork(&mut self) -> Rng {
        Rng(self.next())
    }
}

/// Coq term printers.  Numbers are printed with explicit scope delimiters so that the
/// generated file does not depend on the open scopes.
pub mod coq {
    use std::fmt::Write as _;

    pub fn z<T: Into<i128>>(v: T) -> String {
        let v: i128 = v.into();
        format!("({})%Z", v)
    }
    pub fn zu(v: u64) -> String {
        format!("({})%Z", v)
    }
    pub fn n<T: Into<u128>>(v: T) -> String {
        let v: u128 = v.into();
        format!("({})%N", v)
    }
    pub fn nat(v: usize) -> String {
        // only for small numbers (indices, fuel)
        assert!(v < 5000, "nat literal too large");
        format!("({})%nat", v)
    }
    pub fn b(v: bool) -> String {
        if v { "true".into() } else { "false".into() }
    }
    pub fn list<I: IntoIterator<Item = String>>(it: I) -> String {
        let mut s = String::from("[");
        let mut first = true;
        for x in it {
            if !first {
                s.push_str("; ");
            }
            first = false;
            s.push_str(&x);
        }
        s.push(']');
        s
    }
    pub fn zlist_u64(xs: &[u64]) -> String {
        list(xs.iter().map(|&x| zu(x)))
    }
    pub fn zlist_i64(xs: &[i64]) -> String {
        list(xs.iter().map(|&x| z(x)))
    }
    pub fn bytes(xs: &[u8]) -> String {
        // list Z of byte values
        list(xs.iter().map(|&x| format!("{}", x))).replace('[', "(zl [").replace(']', "])")
    }
    pub fn opt(o: Option<String>) -> String {
        match o {
            Some(s) => format!("(Some {})", s),
            None => "None".into(),
        }
    }
    pub fn pair(a: &str, b: &str) -> String {
        format!("({}, {})", a, b)
    }
    pub fn app(f: &str, args: &[String]) -> String {
        let mut s = format!("({}", f);
        for a in args {
            let _ = write!(s, " {}", a);
        }
        s.push(')');
        s
    }
    /// a Coq string literal is avoided: strings are lists of byte values
    pub fn str_bytes(s: &str) -> String {
        bytes(s.as_bytes())
    }
}

pub fn json_escape(s: &str) -> String {
    let mut o = String::with_capacity(s.len() + 2);
    for c in s.chars() {
        match c {
            '"' => o.push_str("\\\""),
            '\\' => o.push_str("\\\\"),
            '\n' => o.push_str("\\n"),
            '\r' => o.push_str("\\r"),
            '\t' => o.push_str("\\t"),
            c if (c as u32) < 0x20 => {
                let _ = write!(o, "\\u{:04x}", c as u32);
            }
            c => o.push(c),
        }
    }
    o
}

/// One case record.
#[derive(Default, Clone)]
pub struct Case {
    pub kind: String,
    pub input: String,
    pub coq: Option<String>,
    pub show: Option<String>,
    pub oracle: Oracle,
    pub msg: String,
    pub kcoq: Option<String>,
    pub kid: Option<String>,
    pub nontrivial: bool,
    pub imp: String,
    /// free-form tags counted into the distribution histogram of the evidence
    pub tags: Vec<String>,
}

#[derive(Clone, Copy, PartialEq, Eq, Default)]
pub enum Oracle {
    Ok,
    Fail,
    #[default]
    Na,
}

pub struct Out {
    w: std::io::BufWriter<Box<dyn std::io::Write>>,
    pub n: usize,
}

impl Out {
    pub fn create(path: Option<&str>) -> Self {
        let b: Box<dyn std::io::Write> = match path {
            Some(p) => Box::new(std::fs::File::create(p).expect("create out")),
            None => Box::new(std::io::stdout()),
        };
        Out { w: std::io::BufWriter::new(b), n: 0 }
    }
    pub fn emit(&mut self, c: &Case) {
        let mut s = String::new();
        let _ = write!(s, "{{\"k\":\"{}\",\"in\":\"{}\"", json_escape(&c.kind), json_escape(&c.input));
        if let Some(q) = &c.coq {
            let _ = write!(s, ",\"coq\":\"{}\"", json_escape(q));
        }
        if let Some(q) = &c.show {
            let _ = write!(s, ",\"show\":\"{}\"", json_escape(q));
        }
        let o = match c.oracle {
            Oracle::Ok => "ok",
            Oracle::Fail => "fail",
            Oracle::Na => "na",
        };
        let _ = write!(s, ",\"oracle\":\"{}\"", o);
        if !c.msg.is_empty() {
            let _ = write!(s, ",\"msg\":\"{}\"", json_escape(&c.msg));
        }
        if let Some(q) = &c.kcoq {
            let _ = write!(s, ",\"kcoq\":\"{}\"", json_escape(q));
        }
        if let Some(q) = &c.kid {
            let _ = write!(s, ",\"kid\":\"{}\"", json_escape(q));
        }
        let _ = write!(s, ",\"nt\":{}", c.nontrivial);
        let _ = write!(s, ",\"impl\":\"{}\"", json_escape(&c.imp));
        if !c.tags.is_empty() {
            let _ = write!(s, ",\"tags\":[");
            for (i, t) in c.tags.iter().enumerate() {
                if i > 0 {
                    s.push(',');
                }
                let _ = write!(s, "\"{}\"", json_escape(t));
            }
            s.push(']');
        }
        s.push('}');
        writeln!(self.w, "{}", s).expect("write");
        self.n += 1;
    }
    pub fn finish(mut self) {
        self.w.flush().expect("flush");
    }
}

/// Common command line: --seed S --cases N --out FILE --tier quick|thorough [--replay FILE]
pub struct Args {
    pub seed: u64,
    pub cases: usize,
    pub out: Option<String>,
    pub tier: String,
    pub replay: Option<String>,
    pub rest: Vec<String>,
}

pub fn parse_args() -> Args {
    let mut a = Args { seed: 0, cases: 1000, out: None, tier: "quick".into(), replay: None, rest: vec![] };
    let mut it = std::env::args().skip(1);
    while let Some(x) = it.next() {
        match x.as_str() {
            "--seed" => a.seed = it.next().unwrap().parse().unwrap(),
            "--cases" => a.cases = it.next().unwrap().parse().unwrap(),
            "--out" => a.out = it.next(),
            "--tier" => a.tier = it.next().unwrap(),
            "--replay" => a.replay = it.next(),
            _ => a.rest.push(x),
        }
    }
    a
}

/// Runs `f`, mapping a panic to `Err(message)`.  The default panic hook is silenced while `f`
/// runs (the message is still returned) so that expected panics do not flood stderr.
pub fn catch<T, F: FnOnce() -> T + std::panic::UnwindSafe>(f: F) -> Result<T, String> {
    IN_CATCH.with(|c| c.set(c.get() + 1));
    let r = std::panic::catch_unwind(f);
    IN_CATCH.with(|c| c.set(c.get() - 1));
    match r {
        Ok(v) => Ok(v),
        Err(e) => {
            let m = if let Some(s) = e.downcast_ref::<&str>() {
                (*s).to_string()
            } else if let Some(s) = e.downcast_ref::<String>() {
                s.clone()
            } else {
                "panic".to_string()
            };
            Err(m)
        }
    }
}

thread_local! {
    static IN_CATCH: std::cell::Cell<u32> = const { std::cell::Cell::new(0) };
}

/// Panics inside `catch` are expected observations and stay silent; any other panic (a bug of
/// the harness itself, or a panic on a thread the harness did not wrap) is printed as usual.
pub fn quiet_panics() {
    let default = std::panic::take_hook();
    std::panic::set_hook(Box::new(move |info| {
        if IN_CATCH.with(|c| c.get()) == 0 {
            default(info);
        }
    }));
}
