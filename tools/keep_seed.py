#!/usr/bin/env python3
"""tools/keep_seed.py <PROP> <srcdir> --what ... --needs ... --detected ... [--ran ...]*
Stores an independently produced, confirmed breaking change as seeded/<PROP>/<n>/{patch.diff,demo.rs,meta.json}."""
import argparse, json, os, shutil
ap = argparse.ArgumentParser()
ap.add_argument("prop"); ap.add_argument("src")
ap.add_argument("--what", required=True); ap.add_argument("--needs", required=True)
ap.add_argument("--detected", required=True); ap.add_argument("--ran", action="append", default=[])
ap.add_argument("--files", default="")
a = ap.parse_args()
root = os.path.join(os.path.dirname(os.path.dirname(os.path.abspath(__file__))), "seeded", a.prop)
os.makedirs(root, exist_ok=True)
n = 1
while os.path.exists(os.path.join(root, str(n))):
    n += 1
d = os.path.join(root, str(n))
os.makedirs(d)
shutil.copy(os.path.join(a.src, "patch.diff"), d)
shutil.copy(os.path.join(a.src, "demo.rs"), d)
if os.path.exists(os.path.join(a.src, "README.txt")):
    shutil.copy(os.path.join(a.src, "README.txt"), d)
files = a.files or ", ".join(sorted({l[6:].strip() for l in open(os.path.join(d, "patch.diff")) if l.startswith("+++ b/")}))
json.dump({"property": a.prop, "file": files, "what": a.what, "needs": a.needs, "ran": a.ran,
           "detected_by": a.detected,
           "origin": "written by a sub-agent that was given only the property text and a scratch worktree of /repo (nothing from /verif)"},
          open(os.path.join(d, "meta.json"), "w"), indent=1)
print(d)
