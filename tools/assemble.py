#!/usr/bin/env python3
"""Assembles MANIFEST.json from manifest.d/*.json and known-findings.json from known.d/*.json."""
import glob, json, os
R = os.path.dirname(os.path.dirname(os.path.abspath(__file__)))
props = [json.loads(l) for l in open(os.path.join(R, "properties.jsonl"))]
base = json.load(open("/root/.vp/BASELINE.json"))
# only the properties the integrator has accepted (manifest.d/ENABLED, one id per line) are claimed
enabled = set(open(os.path.join(R, "manifest.d", "ENABLED")).read().split())
checks = {}
for p in sorted(glob.glob(os.path.join(R, "manifest.d", "C*.json"))):
    c = json.load(open(p))
    if c["property_id"] in enabled:
        checks[c["property_id"]] = c
na_reasons = {}
nap = os.path.join(R, "manifest.d", "not_applicable.json")
if os.path.exists(nap):
    na_reasons = json.load(open(nap))
hooks_commits = []
hp = os.path.join(R, "manifest.d", "hooks.json")
if os.path.exists(hp):
    hooks_commits = json.load(open(hp)).get("source_commits", [])
man = {
    "version": 1,
    "setup_cmd": "./check --setup",
    "hooks": {"guard": "grafeo_verif",
              "enable": "RUSTFLAGS=\"--cfg grafeo_verif\" (set by lib/gv.py whenever it builds harness/ against /repo's working tree)",
              "baseline_off_cmd": base["cmd"], "source_commits": hooks_commits, "add_only": True},
    "engines": [{"name": "coq-model+correspondence", "path": "coq/ harness/ lib/gv.py check",
                 "serves_properties": sorted(checks),
                 "kind_free_text": "Coq 8.16 theorems about hand-written executable models; each model is tied to /repo by a differential run (Rust harness linked against the working tree vs vm_compute of the model) plus a property oracle on the implementation"}],
    "checks": [checks[k] for k in sorted(checks)],
    "not_applicable": [{"property_id": p["id"],
                        "reason": na_reasons.get(p["id"], "check not built yet (planned: DESIGN.md §8/§10); not a claim that the technique cannot apply")}
                       for p in props if p["id"] not in checks],
    "notes": "See DESIGN.md. Every check: (1) Coq proofs pinned + Print Assumptions + forbidden-token grep, (2) harness rebuilt against /repo's working tree, (3) model == implementation on generated cases, (4) property oracle on the implementation; failures are classified against known-findings.json.",
}
json.dump(man, open(os.path.join(R, "MANIFEST.json"), "w"), indent=1)
fs = []
for p in sorted(glob.glob(os.path.join(R, "known.d", "C*.json"))):
    if os.path.basename(p)[:-5] in enabled:
        fs += json.load(open(p)).get("findings", [])
json.dump({"_format": "status=open entries are printed as KNOWN-FINDING lines when the run reproduces them; status=fixed entries suppress nothing (their 'fixed' line is the record of the repair)",
           "findings": fs}, open(os.path.join(R, "known-findings.json"), "w"), indent=1)
print("manifest: %d checks, %d not claimed; findings: %d" % (len(checks), len(man["not_applicable"]), len(fs)))
