#!/bin/bash
# tools/seedtest.sh <PROP> <patch.diff> [more check args]
# Runs ./check <PROP> against a scratch copy of /repo with the patch applied, WITHOUT touching
# /repo (used while other work builds against /repo).  The scratch worktree, harness copy and
# build output live under /tmp/st-<PROP>-$$ and are removed afterwards.
# At most 3 of these run at a time (slots under /verif/.build), and the scratch target directory
# starts as a copy of /verif/.build/target so that the registry dependencies are not rebuilt.
set -u
PROP=$1; PATCH=$(readlink -f "$2"); shift 2
mkdir -p /verif/.build
exec 9>/dev/null
while [ -z "${GV_SEEDTEST_NOSLOT:-}" ]; do
  for s in 1 2 3; do
    exec 9>"/verif/.build/seedtest.slot$s"
    if flock -n 9; then break 2; fi
  done
  sleep 10
done
D=/tmp/st-$PROP-$$
git -C /repo worktree add -q --detach "$D/repo" HEAD || exit 3
( cd "$D/repo" && git apply "$PATCH" ) || { echo "patch does not apply"; git -C /repo worktree remove --force "$D/repo"; rm -rf "$D"; exit 3; }
mkdir -p "$D/harness"
cp -r /verif/harness/src /verif/harness/Cargo.toml "$D/harness/"
mkdir -p "$D/harness/.cargo"
sed "s#/repo/#$D/repo/#g" -i "$D/harness/Cargo.toml"
printf '[net]\noffline = true\n[build]\ntarget-dir = "%s/target"\njobs = 6\n' "$D" > "$D/harness/.cargo/config.toml"
cp "$D/repo/Cargo.lock" "$D/harness/Cargo.lock"
[ -d /verif/.build/target ] && cp -r /verif/.build/target "$D/target" 2>/dev/null
cd /verif
GV_REPO_DIR="$D/repo" GV_HARNESS_DIR="$D/harness" GV_TARGET_DIR="$D/target" GV_OUT_TAG="st$$" ./check "$PROP" "$@"
rc=$?
git -C /repo worktree remove --force "$D/repo"
rm -rf "$D"
exit $rc
