#!/bin/bash
# tools/seedtest.sh <PROP> <patch.diff> [more check args]
# Runs ./check <PROP> against a scratch copy of /repo with the patch applied, WITHOUT touching
# /repo (used while other work builds against /repo).  The scratch worktree, harness copy and
# build output live under /tmp/st-<PROP>-$$ and are removed afterwards.
set -u
PROP=$1; PATCH=$(readlink -f "$2"); shift 2
D=/tmp/st-$PROP-$$
git -C /repo worktree add -q "$D/repo" HEAD || exit 3
( cd "$D/repo" && git apply "$PATCH" ) || { echo "patch does not apply"; git -C /repo worktree remove --force "$D/repo"; rm -rf "$D"; exit 3; }
mkdir -p "$D/harness"
cp -r /verif/harness/src /verif/harness/Cargo.toml "$D/harness/"
mkdir -p "$D/harness/.cargo"
sed "s#/repo/#$D/repo/#g" -i "$D/harness/Cargo.toml"
printf '[net]\noffline = true\n[build]\ntarget-dir = "%s/target"\n' "$D" > "$D/harness/.cargo/config.toml"
cp "$D/repo/Cargo.lock" "$D/harness/Cargo.lock"
cd /verif
GV_HARNESS_DIR="$D/harness" GV_TARGET_DIR="$D/target" GV_OUT_TAG="st$$" ./check "$PROP" "$@"
rc=$?
git -C /repo worktree remove --force "$D/repo"
rm -rf "$D"
exit $rc
