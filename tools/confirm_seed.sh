#!/bin/bash
# tools/confirm_seed.sh <dir with patch.diff demo.rs README.txt> <crate> <demo test name>
# Confirms an independently produced breaking change in the persistent scratch worktree /tmp/confirm/repo:
#   (a) demo passes WITHOUT the patch, (b) patch applies and the workspace builds, (c) the existing
#   test-suite passes WITH the patch, (d) demo fails WITH the patch.  Prints one line per step.
set -u
S=$(readlink -f "$1"); CRATE=$2; NAME=$3
W=${CONFIRM_W:-/tmp/confirm/repo}
export CARGO_BUILD_JOBS=6 CARGO_NET_OFFLINE=true
cd $W || exit 3
git checkout -q -- . && git clean -fdq -e target
mkdir -p crates/$CRATE/tests
cp "$S/demo.rs" crates/$CRATE/tests/$NAME.rs
if cargo test -q -p $CRATE ${CONFIRM_FEATURES:-} --offline --test $NAME > $W/../a.log 2>&1; then echo "a: demo passes without the change"; else echo "a: DEMO FAILS WITHOUT THE CHANGE"; tail -15 $W/../a.log; fi
git apply "$S/patch.diff" || { echo "b: PATCH DOES NOT APPLY"; exit 1; }
if cargo test -q -p $CRATE ${CONFIRM_FEATURES:-} --offline --test $NAME > $W/../d.log 2>&1; then echo "d: DEMO PASSES WITH THE CHANGE"; else echo "d: demo fails with the change"; fi
rm crates/$CRATE/tests/$NAME.rs
if cargo nextest run --workspace --offline --test-threads 6 --no-fail-fast > $W/../c.log 2>&1; then echo "c: existing suite passes with the change: $(grep Summary $W/../c.log)"; else echo "c: SUITE FAILS WITH THE CHANGE: $(grep Summary $W/../c.log)"; grep "^\s*FAIL" $W/../c.log | sort -u | head; fi
git checkout -q -- . && git clean -fdq -e target
