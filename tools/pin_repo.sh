#!/bin/bash
# records the /repo commit the models were last validated against (see lib/gv.py: repo_drift)
git -C /repo rev-parse HEAD > /verif/repo.pin && cat /verif/repo.pin
