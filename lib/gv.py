"""Shared machinery of the /verif checks.

  proof status   : build the .vo of a property, pin its statements, Print Assumptions, forbidden-token grep
  harness        : cargo build (against /repo's working tree) + run one binary -> JSONL cases
  coq evaluation : evaluate Coq terms (model == impl, model outputs, finding classes) with coqc/vm_compute
  decision       : known findings, VIOLATION lines, replay files, evidence files
"""
import concurrent.futures
import hashlib
import json
import os
import re
import shutil
import subprocess
import sys
import time

ROOT = os.path.dirname(os.path.dirname(os.path.abspath(__file__)))
BUILD = os.path.join(ROOT, ".build")
COQ = os.path.join(ROOT, "coq")
# GV_HARNESS_DIR / GV_TARGET_DIR: used only by tools/seedtest.sh to run a check against a scratch
# copy of /repo without touching /repo itself; the registered commands never set them.
HARNESS = os.environ.get("GV_HARNESS_DIR", os.path.join(ROOT, "harness"))
TARGET = os.environ.get("GV_TARGET_DIR", os.path.join(BUILD, "target"))
# GV_OUT_TAG: set only by tools/seedtest.sh — evidence, replay files and generated case files of such a run
# go to tagged places so that it cannot disturb (or be mistaken for) a registered run against /repo
OUT_TAG = os.environ.get("GV_OUT_TAG", "")
EVID = os.path.join(ROOT, "evidence") if not OUT_TAG else os.path.join(BUILD, "evidence-" + OUT_TAG)
KNOWN_FILE = os.path.join(ROOT, "known-findings.json")
NCPU = os.cpu_count() or 4

ALLOWED_AXIOMS = {
    # standard-library axioms that may appear (each is named in the evidence when it does)
    "functional_extensionality_dep",
    "FunctionalExtensionality.functional_extensionality_dep",
    "Coq.Logic.FunctionalExtensionality.functional_extensionality_dep",
    "Eqdep.Eq_rect_eq.eq_rect_eq",
    "Coq.Logic.Eqdep.Eq_rect_eq.eq_rect_eq",
    "JMeq_eq", "JMeq.JMeq_eq", "Coq.Logic.JMeq.JMeq_eq",
    "proof_irrelevance", "ProofIrrelevance.proof_irrelevance",
    "Classical_Prop.classic", "classic",
    "propositional_extensionality",
}

FORBIDDEN = re.compile(
    r"\b(Admitted|admit|Axiom|Axioms|Parameter|Parameters|Conjecture|Conjectures)\b"
    r"|Unset\s+Guard|Unset\s+Positivity|Unset\s+Universe|bypass_check|Admit\s+Obligations"
    r"|type-in-type|impredicative-set|native_compute")


def log(*a):
    print(*a, file=sys.stderr, flush=True)


def sh(cmd, cwd=None, timeout=3600, env=None, check=False):
    e = dict(os.environ)
    e.setdefault("CARGO_NET_OFFLINE", "true")
    if env:
        e.update(env)
    p = subprocess.run(cmd, cwd=cwd, shell=isinstance(cmd, str), stdout=subprocess.PIPE,
                       stderr=subprocess.STDOUT, text=True, timeout=timeout, env=e, errors="replace")
    if check and p.returncode != 0:
        raise RuntimeError("command failed (%s): %s\n%s" % (p.returncode, cmd, p.stdout[-4000:]))
    return p.returncode, p.stdout


# ----------------------------------------------------------------------------- Coq build

def strip_comments(src):
    """Remove (* ... *) comments (nested) from Coq source."""
    out = []
    depth = 0
    i = 0
    n = len(src)
    instr = False
    while i < n:
        c = src[i]
        if depth == 0 and c == '"':
            instr = not instr
            out.append(c)
            i += 1
            continue
        if not instr and src.startswith("(*", i):
            depth += 1
            i += 2
            continue
        if not instr and depth > 0 and src.startswith("*)", i):
            depth -= 1
            i += 2
            continue
        if depth == 0:
            out.append(c)
        elif c == "\n":
            out.append(c)
        i += 1
    return "".join(out)


def coq_sources():
    res = []
    for d, _, fs in os.walk(COQ):
        for f in fs:
            if f.endswith(".v"):
                res.append(os.path.relpath(os.path.join(d, f), COQ))
    return sorted(res)


def write_coqproject():
    lines = ["-Q . GV", "-arg -w -arg -deprecated-hint-rewrite-without-locality",
             "-arg -w -arg -notation-overridden"]
    lines += coq_sources()
    txt = "\n".join(lines) + "\n"
    p = os.path.join(COQ, "_CoqProject")
    old = open(p).read() if os.path.exists(p) else None
    if old != txt:
        open(p, "w").write(txt)
    mk = os.path.join(COQ, "Makefile")
    if old != txt or not os.path.exists(mk):
        sh("coq_makefile -f _CoqProject -o Makefile", cwd=COQ, check=True)


def _direct_deps(rel):
    """GV source files (relative paths) that the file `rel` requires directly."""
    have = set(coq_sources())
    src = strip_comments(open(os.path.join(COQ, rel)).read())
    out = []
    for m in re.finditer(r"(From\s+GV\s+)?Require\s+(?:Import\s+|Export\s+)?([^.]*(?:\.[A-Za-z_][^.]*)*?)\.(?=\s)", src, re.S):
        for name in m.group(2).split():
            if name.startswith("GV."):
                name = name[3:]
            elif not m.group(1):
                continue
            f = name.replace(".", "/") + ".v"
            if f in have:
                out.append(f)
    return out


def coq_uptodate(targets):
    """True when every .vo in the dependency closure of the targets exists, is newer than its
    source and not older than the .vo files it was compiled against — i.e. `make` would do nothing.
    Lets a check whose area nobody is editing skip the (machine-wide, exclusive) build lock."""
    try:
        mods = ["GV." + t[:-3].replace("/", ".") for t in targets]
        for rel in dep_closure(mods):
            vo = os.path.join(COQ, rel + "o")
            if not os.path.exists(vo):
                return False
            t = os.path.getmtime(vo)
            if os.path.getmtime(os.path.join(COQ, rel)) > t:
                return False
            for d in _direct_deps(rel):
                dvo = os.path.join(COQ, d + "o")
                if not os.path.exists(dvo) or os.path.getmtime(dvo) > t:
                    return False
        return True
    except OSError:
        return False


def coq_make(targets=None, timeout=3000, keep_going=False):
    """Full .vo build (never -vos) of the given targets (relative .vo paths) or of everything.
    Serialised by a file lock so that concurrent checks do not race on the Makefile / .vo files."""
    import fcntl
    os.makedirs(BUILD, exist_ok=True)
    if targets and coq_uptodate(targets):
        return True, "up to date (every .vo in the dependency closure is newer than its source and its dependencies)"
    with open(os.path.join(BUILD, "coq.lock"), "w") as lk:
        fcntl.flock(lk, fcntl.LOCK_EX)
        write_coqproject()
        t = " ".join(targets) if targets else ""
        rc, out = sh("timeout %d make %s -j%d %s" % (timeout, "-k" if keep_going else "", NCPU, t), cwd=COQ, timeout=timeout + 60)
    return rc == 0, out


def forbidden_tokens(files=None):
    """Occurrences of Admitted/admit/Axiom/... in the development (comments stripped)."""
    hits = []
    for rel in (files or coq_sources()):
        src = strip_comments(open(os.path.join(COQ, rel)).read())
        for ln, line in enumerate(src.split("\n"), 1):
            if FORBIDDEN.search(line):
                hits.append("%s:%d: %s" % (rel, ln, line.strip()))
        # Variable/Hypothesis outside a Section
        depth = 0
        for ln, line in enumerate(src.split("\n"), 1):
            s = line.strip()
            if re.match(r"Section\s+\w+", s):
                depth += 1
            elif re.match(r"End\s+\w+", s) and depth > 0:
                depth -= 1
            elif depth == 0 and re.match(r"(Variable|Variables|Hypothesis|Hypotheses|Context)\b", s):
                hits.append("%s:%d: %s (outside Section)" % (rel, ln, s))
    return hits


def dep_closure(mods):
    """Source files (relative to coq/) in the dependency closure of the given GV modules, found by reading the
    `Require` commands (multi-line, `From GV Require …` or `Require … GV.A.B`).  Conservative: an unknown
    name is ignored, a name that matches a file of the development is followed."""
    have = set(coq_sources())
    seen, todo = [], [vo_target(m)[:-1] for m in mods]      # X/Y.vo -> X/Y.v
    while todo:
        f = todo.pop()
        if f in seen or f not in have:
            continue
        seen.append(f)
        src = strip_comments(open(os.path.join(COQ, f)).read())
        for m in re.finditer(r"(From\s+GV\s+)?Require\s+(?:Import\s+|Export\s+)?([^.]*(?:\.[A-Za-z_][^.]*)*?)\.(?=\s)", src, re.S):
            for name in m.group(2).split():
                if name.startswith("GV."):
                    name = name[3:]
                elif not m.group(1):
                    continue
                todo.append(name.replace(".", "/") + ".v")
    return sorted(seen)


def read_statements(prop):
    """props/<prop>.statements: entries `name : statement.` separated by blank lines."""
    p = os.path.join(ROOT, "props", prop + ".statements")
    txt = strip_comments(open(p).read())
    ents = []
    for block in re.split(r"\n\s*\n", txt):
        b = block.strip()
        if not b:
            continue
        m = re.match(r"([A-Za-z_][A-Za-z0-9_']*)\s*:\s*(.*)$", b, re.S)
        if not m:
            raise RuntimeError("bad statement block in %s: %r" % (p, b[:80]))
        name, stmt = m.group(1), m.group(2).strip()
        if stmt.endswith("."):
            stmt = stmt[:-1]
        ents.append((name, stmt))
    return ents


def vo_target(mod):
    return mod.replace("GV.", "", 1).replace(".", "/") + ".vo"


class _Slot:
    """One of NCPU machine-wide slots (file locks under .build/slots): bounds the number of coqc
    processes that all concurrently running checks start, whatever their own thread pools do."""
    def __enter__(self):
        import fcntl, random
        d = os.path.join(BUILD, "slots")
        os.makedirs(d, exist_ok=True)
        while True:
            order = list(range(NCPU))
            random.shuffle(order)
            for k in order:
                f = open(os.path.join(d, "coqc.%d" % k), "w")
                try:
                    fcntl.flock(f, fcntl.LOCK_EX | fcntl.LOCK_NB)
                    self.f = f
                    return self
                except OSError:
                    f.close()
            time.sleep(0.2 + random.random() * 0.3)

    def __exit__(self, *a):
        self.f.close()


def coqc_file(path, timeout=900):
    with _Slot():
        return _coqc_file(path, timeout)


def _coqc_file(path, timeout=900):
    rc, out = sh("timeout %d coqc -noglob -Q %s GV -w -notation-overridden %s" % (timeout, COQ, path), cwd=os.path.dirname(path),
                 timeout=timeout + 30)
    return rc, out


def proof_status(prop, requires, extra_files=None):
    """Returns dict(obligations, discharged, failures[list of str], axioms{name:[axioms]}, checker_cmd).

    requires: list of module names (e.g. ["GV.Props.Props_C15"]) whose theorems are pinned."""
    res = {"obligations": 0, "discharged": 0, "failures": [], "axioms": {}, "names": []}
    targets = [vo_target(r) for r in requires]
    ok, out = coq_make(targets)
    res["checker_cmd"] = "make -C coq %s (coqc 8.16.1, full .vo) ; coqc Pin_%s.v (Check name : statement ; Print Assumptions name)" % (" ".join(targets), prop)
    stmts = read_statements(prop)
    res["obligations"] = len(stmts)
    res["names"] = [n for n, _ in stmts]
    if not ok:
        tail = out[-3000:]
        res["failures"].append("coq build failed:\n" + tail)
        res["build_log"] = tail
        # find which statements are still provable is impossible without the .vo: all undischarged
        return res
    d = os.path.join(BUILD, "pin" + ("-" + OUT_TAG if OUT_TAG else ""))
    os.makedirs(d, exist_ok=True)
    # one file per statement so that one failure does not hide the others
    def one(i_ns):
        i, (name, stmt) = i_ns
        path = os.path.join(d, "Pin_%s_%d.v" % (prop, i))
        with open(path, "w") as f:
            for r in requires:
                f.write("Require Import %s.\n" % r)
            f.write("Check (%s : %s).\n" % (name, stmt))
            f.write("Print Assumptions %s.\n" % name)
        rc, o = coqc_file(path, timeout=600)
        return name, rc, o
    with concurrent.futures.ThreadPoolExecutor(max_workers=NCPU) as ex:
        results = list(ex.map(one, enumerate(stmts)))
    for name, rc, o in results:
        if rc != 0:
            res["failures"].append("statement %s is not proved as pinned: %s" % (name, o[-1500:]))
            continue
        axs = []
        if "Closed under the global context" not in o:
            m = re.search(r"Axioms:\s*(.*)$", o, re.S)
            body = m.group(1) if m else o
            for line in body.split("\n"):
                mm = re.match(r"^([A-Za-z_][\w.']*)\s*:", line)
                if mm:
                    axs.append(mm.group(1))
            if not axs:
                axs = ["<unparsed Print Assumptions output>"]
        res["axioms"][name] = axs
        bad = [a for a in axs if a not in ALLOWED_AXIOMS and a.split(".")[-1] not in ALLOWED_AXIOMS]
        if bad:
            res["failures"].append("theorem %s depends on axioms outside the allow-list: %s" % (name, bad))
        else:
            res["discharged"] += 1
    # thorough tier: the independent checker re-checks the compiled library and everything it depends on
    if os.environ.get("VERIF_TIER") == "thorough" or os.environ.get("GV_COQCHK"):
        rc, o = sh("timeout 2400 coqchk -o -silent -Q . GV %s" % " ".join(requires), cwd=COQ, timeout=2500)
        m = re.search(r"\* Axioms:(.*?)\n\s*\n\* Constants/Inductives relying on type-in-type:(.*?)\n\s*\n"
                      r"\* Constants/Inductives relying on unsafe \(co\)fixpoints:(.*?)\n\s*\n"
                      r"\* Inductives whose positivity is assumed:(.*?)\n", o + "\n\n", re.S)
        res["coqchk"] = {"rc": rc, "summary": " ".join(o[-700:].split())}
        if rc != 0 or not m:
            res["failures"].append("coqchk did not accept %s: %s" % (requires, o[-1500:]))
        else:
            axs = [a.strip() for a in m.group(1).split("\n") if a.strip() and a.strip() != "<none>"]
            bad = [a for a in axs if a.split(" ")[0] not in ALLOWED_AXIOMS and a.split(" ")[0].split(".")[-1] not in ALLOWED_AXIOMS]
            unsafe = [x for g_ in (m.group(2), m.group(3), m.group(4)) for x in g_.split("\n") if x.strip() and x.strip() != "<none>"]
            res["coqchk"]["axioms"] = axs
            if bad or unsafe:
                res["failures"].append("coqchk reports axioms outside the allow-list or unsafe constants: %s %s" % (bad, unsafe))
    # the files the property's theorems depend on (their dependency closure); the whole tree is scanned
    # in the thorough tier (files of other properties cannot weaken this property's theorems)
    scope = dep_closure(requires)
    if os.environ.get("VERIF_TIER") == "thorough" or os.environ.get("GV_SCAN_ALL"):
        scope = None
    res["scanned_files"] = len(scope) if scope is not None else len(coq_sources())
    hits = forbidden_tokens(scope)
    if hits:
        res["failures"].append("forbidden tokens in the development: " + "; ".join(hits[:10]))
        res["discharged"] = 0
    return res


# ----------------------------------------------------------------------------- harness

def cargo_build(binname, profile="dev", timeout=3000):
    """Builds one harness binary against /repo's current working tree, hooks enabled."""
    lock = os.path.join(HARNESS, "Cargo.lock")
    if not os.path.exists(lock):
        shutil.copy("/repo/Cargo.lock", lock)
    prof = "" if profile == "dev" else "--profile %s" % profile
    cmd = "timeout %d cargo build --offline %s --bin %s" % (timeout, prof, binname)
    rc, out = sh(cmd, cwd=HARNESS, timeout=timeout + 60,
                 env={"RUSTFLAGS": "--cfg grafeo_verif -Awarnings", "CARGO_NET_OFFLINE": "true"})
    if rc != 0:
        # a stale lock file (dependencies of /repo changed) is regenerated once from /repo's
        if "lock file" in out or "Cargo.lock" in out:
            shutil.copy("/repo/Cargo.lock", lock)
            rc, out = sh(cmd, cwd=HARNESS, timeout=timeout + 60,
                         env={"RUSTFLAGS": "--cfg grafeo_verif -Awarnings", "CARGO_NET_OFFLINE": "true"})
    sub = "debug" if profile == "dev" else profile
    return rc == 0, out, os.path.join(TARGET, sub, binname)


def run_harness(binpath, args, out_path, timeout=1800, env=None):
    if OUT_TAG and OUT_TAG not in os.path.basename(out_path):
        out_path = out_path + "." + OUT_TAG
    os.makedirs(os.path.dirname(out_path), exist_ok=True)
    if os.path.exists(out_path):
        os.remove(out_path)
    cmd = [binpath] + [str(a) for a in args] + ["--out", out_path]
    t0 = time.time()
    e = dict(os.environ)
    e["RUST_BACKTRACE"] = "0"
    if env:
        e.update(env)
    p = subprocess.run(cmd, stdout=subprocess.PIPE, stderr=subprocess.PIPE, text=True, timeout=timeout,
                       errors="replace", env=e, cwd=BUILD)
    cases = []
    if os.path.exists(out_path):
        with open(out_path) as f:
            for line in f:
                line = line.strip()
                if line:
                    cases.append(json.loads(line))
    return p.returncode, p.stdout, p.stderr[-4000:], cases, time.time() - t0


# ----------------------------------------------------------------------------- source drift

def repo_drift(prop):
    """How far /repo's working tree is from the commit the models were last validated against
    (/verif/repo.pin, written by tools/pin_repo.sh after every accepted change of /repo):
      0 = identical, 1 = some source file under crates/ differs, 2 = a file anchored by the property differs.
    Used only to decide how many cases the quick tier generates (more when the code moved: a changed
    tree is where a regression can be); never to skip anything."""
    info = {"level": 0, "changed": []}
    try:
        pin = open(os.path.join(ROOT, "repo.pin")).read().split()[0]
        repo = os.environ.get("GV_REPO_DIR", "/repo")   # GV_REPO_DIR: only tools/seedtest.sh sets it
        rc, out = sh("git -C %s diff --name-only %s -- crates ; git -C %s ls-files --others --exclude-standard -- crates" % (repo, pin, repo), timeout=60)
        if rc != 0:
            info["note"] = "git diff against the pinned commit failed: " + out[-200:]
            info["level"] = 1
            return info
        ch = sorted({l.strip() for l in out.split("\n") if l.strip().endswith(".rs") or l.strip().endswith(".toml")})
        info["changed"] = ch[:20]
        if ch:
            info["level"] = 1
            anchors = set()
            for l in open(os.path.join(ROOT, "properties.jsonl")):
                p = json.loads(l)
                if p["id"] == prop:
                    anchors = set(p.get("anchors", {}).get("files", []))
            if any(c in anchors for c in ch):
                info["level"] = 2
    except Exception as e:  # no pin / no git: behave as on the unchanged tree, but say so
        info["note"] = "drift not determined: %r" % (e,)
    return info


def scaled(prop, tier, quick_n, thorough_n, chk=None):
    """Number of generated cases: quick_n on the pinned tree; more in the quick tier when /repo has moved
    (x3 for any source change, x8 — at most thorough_n — when an anchored file changed)."""
    if tier != "quick":
        return thorough_n
    d = repo_drift(prop)
    if chk is not None:
        chk.coverage["repo_drift"] = d
    f = {0: 1, 1: 3, 2: 8}[d["level"]]
    return min(thorough_n, quick_n * f)


# ----------------------------------------------------------------------------- Coq evaluation

_EVAL_HDR = """Set Printing Width 100000.
Set Printing Depth 1000000.
From Coq Require Import ZArith NArith List Bool String.
Import ListNotations.
Open Scope Z_scope.
"""


def _eval_shard(args):
    path, requires, exprs = args
    with open(path, "w") as f:
        f.write(_EVAL_HDR)
        for r in requires:
            f.write("Require Import %s.\n" % r)
        f.write("Open Scope Z_scope.\n")
        for e in exprs:
            f.write("Eval vm_compute in (%s).\n" % e)
    rc, out = coqc_file(path, timeout=1500)
    if rc != 0:
        return None, out
    # every Eval prints "     = value\n     : type"
    vals = re.findall(r"^\s*= (.*?)\n\s*: ", out, re.S | re.M)
    vals = [" ".join(v.split()) for v in vals]
    return vals, out


def coq_eval(name, requires, exprs, shard=250):
    """Evaluates the Coq terms; returns the list of printed values (strings).
    Raises RuntimeError when coqc rejects a generated file (a harness/model interface bug)."""
    if not exprs:
        return []
    d = os.path.join(BUILD, "cases", (OUT_TAG + "_" if OUT_TAG else "") + name)
    shutil.rmtree(d, ignore_errors=True)
    os.makedirs(d)
    jobs = []
    for i in range(0, len(exprs), shard):
        jobs.append((os.path.join(d, "S%04d.v" % (i // shard)), requires, exprs[i:i + shard]))
    out = []
    with concurrent.futures.ThreadPoolExecutor(max_workers=NCPU) as ex:
        for (vals, raw), job in zip(ex.map(_eval_shard, jobs), jobs):
            if vals is None or len(vals) != len(job[2]):
                raise RuntimeError("coqc failed on %s:\n%s" % (job[0], (raw or "")[-3000:]))
            out.extend(vals)
    return out


# ----------------------------------------------------------------------------- decision helpers

def load_known(prop):
    """known-findings.json (assembled from known.d/*.json by tools/assemble.py) plus the property's own
    fragment known.d/<prop>.json; both are committed files and are never written at run time."""
    out = {}
    for path in (KNOWN_FILE, os.path.join(ROOT, "known.d", prop + ".json")):
        if os.path.exists(path):
            for f in json.load(open(path)).get("findings", []):
                if f.get("property") == prop:
                    out[f["id"]] = f
    return list(out.values())


class Check:
    """One run of one property check.  Collects findings and writes the evidence."""

    def __init__(self, prop, tier, seed, level="proof"):
        self.prop = prop
        self.tier = tier
        self.seed = seed
        self.level = level
        self.t0 = time.time()
        self.violations = []      # (replay_path, no_input_found)
        self.known_hits = {}      # finding id -> count
        self.coverage = {}
        self.assumptions = []
        self.notes = []
        self.known = load_known(prop)
        os.makedirs(os.path.join(BUILD, "replay"), exist_ok=True)

    def replay_path(self, tag):
        return os.path.join(BUILD, "replay", "%s%s_%s.json" % (OUT_TAG + "_" if OUT_TAG else "", self.prop, tag))

    def violation(self, tag, obj, no_input=False):
        p = self.replay_path(tag)
        obj = dict(obj)
        obj["property"] = self.prop
        obj["no_failing_input_found"] = no_input
        with open(p, "w") as f:
            json.dump(obj, f, indent=1)
        self.violations.append((p, no_input))
        print("VIOLATION property=%s replay=%s%s" % (self.prop, p, " no-failing-input-found" if no_input else ""),
              flush=True)

    def known_finding(self, fid):
        self.known_hits[fid] = self.known_hits.get(fid, 0) + 1

    def open_finding_ids(self):
        return {f["id"] for f in self.known if f.get("status") == "open"}

    def finish(self, proof=None, extra_cov=None):
        cov = dict(self.coverage)
        if proof is not None:
            cov["obligations"] = proof["obligations"]
            cov["discharged"] = proof["discharged"]
            cov["checker_cmd"] = proof["checker_cmd"]
            cov["theorems"] = proof["names"]
            cov["axioms_per_theorem"] = proof["axioms"]
            if "coqchk" in proof:
                cov["coqchk"] = proof["coqchk"]
            if "scanned_files" in proof:
                cov["forbidden_token_scan_files"] = proof["scanned_files"]
        if extra_cov:
            cov.update(extra_cov)
        cov.setdefault("trusted_base", [])
        for f in self.known:
            if f.get("status") == "open":
                n = self.known_hits.get(f["id"], 0)
                if n > 0:
                    print("KNOWN-FINDING: property=%s %s [%s] (reproduced on %d case(s) of this run)" % (self.prop, f["what"], f["id"], n), flush=True)
        cov["known_findings_reproduced"] = self.known_hits
        ev = {
            "property_id": self.prop, "tier": self.tier, "seed": self.seed, "level": self.level,
            "coverage": cov, "assumptions": self.assumptions, "wall_s": round(time.time() - self.t0, 2),
            "violations": len(self.violations),
        }
        if self.notes:
            ev["notes"] = self.notes
        os.makedirs(EVID, exist_ok=True)
        with open(os.path.join(EVID, self.prop + ".json"), "w") as f:
            json.dump(ev, f, indent=1)
        return 1 if self.violations else 0


def histogram(cases, key="k"):
    h = {}
    for c in cases:
        h[c.get(key, "?")] = h.get(c.get(key, "?"), 0) + 1
    return h


def tag_histogram(cases):
    h = {}
    for c in cases:
        for t in c.get("tags", []):
            h[t] = h.get(t, 0) + 1
    return h


def distinct_nontrivial(cases):
    s = set()
    for c in cases:
        if c.get("nt"):
            s.add(hashlib.sha1((c.get("k", "") + "|" + c.get("in", "")).encode()).hexdigest())
    return len(s)


def standard_flow(chk, requires_run, cases, proof, area, max_report=3):
    """The decision protocol of DESIGN §3 for a harness run:
       - correspondence: every case's `coq` term must evaluate to true
       - oracle: cases with oracle == fail are classified by `kcoq` (evaluated in Coq) against
         the open findings of known-findings.json; unlisted failures are violations
       - a broken proof or correspondence with no unlisted failing input => no-failing-input-found
    """
    corr_idx = [i for i, c in enumerate(cases) if c.get("coq")]
    ok, out = coq_make([vo_target(r) for r in requires_run])
    if not ok:
        chk.violation("model", {"what": "the executable model no longer compiles", "broken": ["coq build of %s failed" % requires_run],
                                "log": out[-3000:]}, no_input=True)
        return [], []
    vals = coq_eval(chk.prop + "_corr", requires_run, [cases[i]["coq"] for i in corr_idx])
    mism = [i for i, v in zip(corr_idx, vals) if v != "true"]
    # oracle failures
    fails = [i for i, c in enumerate(cases) if c.get("oracle") == "fail"]
    open_ids = chk.open_finding_ids()
    kidx = [i for i in fails if cases[i].get("kcoq") and cases[i].get("kid") in open_ids]
    kvals = coq_eval(chk.prop + "_k", requires_run, [cases[i]["kcoq"] for i in kidx])
    listed = {i for i, v in zip(kidx, kvals) if v == "true"}
    unlisted = [i for i in fails if i not in listed]
    for i in listed:
        chk.known_finding(cases[i]["kid"])
    reported = 0
    for i in unlisted[:max_report]:
        c = cases[i]
        chk.violation("fail%d" % reported, {"kind": c["k"], "input": c["in"], "impl": c.get("impl"),
                                             "why": c.get("msg", ""), "what": "the implementation violates the property on this input (oracle)"})
        reported += 1
    # model outputs for mismatching cases (diagnostics)
    shows = {}
    sidx = [i for i in mism[:5] if cases[i].get("show")]
    if sidx:
        try:
            sv = coq_eval(chk.prop + "_show", requires_run, [cases[i]["show"] for i in sidx])
            shows = dict(zip(sidx, sv))
        except RuntimeError as e:  # diagnostics only
            shows = {}
    broken = []
    if mism:
        broken.append("correspondence %s: model and implementation differ on %d case(s)" % (area, len(mism)))
    if proof is not None and proof["failures"]:
        broken += proof["failures"]
    if broken and not unlisted:
        first = cases[mism[0]] if mism else None
        chk.violation("broken", {
            "what": "a proof obligation or the model/implementation correspondence no longer checks; no failing input outside the listed findings was found",
            "broken": broken,
            "first_differing_case": None if first is None else {"kind": first["k"], "input": first["in"], "impl": first.get("impl"),
                                                               "model": shows.get(mism[0])},
        }, no_input=True)
    elif mism and unlisted:
        chk.notes.append("correspondence also broken on %d cases" % len(mism))
    chk.coverage.update({
        "evaluations": len(cases),
        "distinct_nontrivial": distinct_nontrivial(cases),
        "traces_validated_against_impl": len(corr_idx),
        "correspondence_mismatches": len(mism),
        "oracle_failures": len(fails),
        "oracle_failures_listed": len(listed),
        "oracle_failures_unlisted": len(unlisted),
        "kinds": histogram(cases),
        "tags": tag_histogram(cases),
    })
    return mism, unlisted
