"""C06 — a crash at any point loses at most the unsynced tail, and never corrupts (DESIGN §8 C06).
Same harness binary and Coq area as C05; the streams are writer bytes in every durability mode,
crash images (every cut length of the last records, bit flips, crafted damage) and
crash -> reopen -> more writes -> close -> reopen histories."""
from checks import c05

REQ_PROPS = ["GV.Props.Props_C06"]
REQ_RUN = ["GV.Wal.Run"]
BINS = ["c05"]

RULE = ("(i) WalManager operation sequences (log/sync/rotate/checkpoint/reopen; Sync, Batch by count, Batch by delay 0, Adaptive, NoSync; "
        "max_log_size 64..64MiB; records larger than the BufWriter): length of every file as the file system reports it after every "
        "operation, final bytes, checkpoint.meta (bytes and decoding), recover(); (ii) crash images of such directories: every byte "
        "length of the last file over its last three records (thorough: all), lost metadata rename, left-over checkpoint.meta.tmp, a "
        "fresh empty rotated file, cuts of non-final files, single-bit flips (length/body/checksum fields tagged), undecodable payload "
        "with a valid checksum, trailing payload byte, huge length field, garbage metadata: WalRecovery::recover and GrafeoDB::open "
        "(dump and next ids) against the model; oracle: open succeeds and the records are what some prefix of the logged records "
        "commits; (iii) GrafeoDB histories with a crash (cut full/inside a record/at a boundary/at a byte/1, 2 and 3 bytes into the length prefix of the last, of an earlier and of the very first record - on every run, in NoSync and Sync mode) followed by reopen, more "
        "writes, close, reopen: per session returns, dumps, file bytes, dumps after reopen, the model's fsynced length of the cut file; "
        "oracle: recovered dump = dump after some prefix of the session that covers everything fsynced, and every later clean cycle is "
        "exact; damaged payloads through the record decoder; codec tables against the concrete codec model. "
        "non-trivial = images and histories with at least two data records; distinct = distinct (kind, input)")

ASSUMPTIONS = [
    "a crash is modelled as: every file keeps a prefix that contains its fsynced bytes, a never-fsynced file may vanish, rename is atomic; "
    "the harness cuts copies of the files (no real power loss, no reordering of sectors inside the unsynced tail)",
    "detection of a bit flip inside a length field is a 2^-32 argument, not a theorem (searched: such flips are tagged flip:length)",
    "vec![0u8; len] with a corrupt length up to 4 GiB (resource exhaustion) is exercised with 2^28 only and not modelled",
    "Adaptive mode: the background flusher thread is not started by GrafeoDB::with_config; log() only flushes (modelled so)",
] + c05.ASSUMPTIONS[:3]


def run(tier, seed):
    return c05.wal_flow("C06", tier, seed, RULE, ASSUMPTIONS)


def replay(path, tier, seed):
    return c05.wal_replay("C06", path, tier, seed, run)
