"""C02 — commit and rollback are all-or-nothing (DESIGN §8 C02).

Same model, harness binary and runner as C01.  Histories: starting graph, then one or two transactions with
mixed mutations, each enclosed by two dumps (full observable state through every access path, read by an
observer session).  Oracle = `atomic_ok` of coq/Mvcc/Spec.v on the implementation's outputs (`c02_fails`)."""
import os
import re

import gv
from checks import c01 as base

PROP = "C02"
REQ_PROPS = ["GV.Props.Props_C02"]
REQ_RUN = ["GV.Mvcc.Run"]
BINS = ["c01"]
CLASSES = {1: "C02-K1", 2: "C02-K2", 5: "C02-K5"}   # C02-K4 fixed by 3eb02b5
TAG = base.TAG


def dumps_of(c):
    m = re.search(r"dumps=(\[.*?\])( errors=|$)", c.get("msg", ""))
    return m.group(1) if m else "[]"


def run(tier, seed, replay_file=None):
    chk = gv.Check(PROP, tier, seed, level="proof")
    base.load_known_fallback(chk, PROP)
    proof = gv.proof_status(PROP, REQ_PROPS)
    # quick: 220 histories on the pinned tree, up to 880 when /repo has moved; thorough: 3000
    ncases = gv.scaled(PROP, tier, 220, 880, chk) if tier == "quick" else 3000
    ok, out, binp = gv.cargo_build("c01")
    if not ok:
        chk.violation("build", {"what": "the harness no longer builds against /repo's working tree", "log": out[-3000:],
                                "broken": ["correspondence C02: harness build failed"]}, no_input=True)
        return chk.finish(proof)
    if os.environ.get("GV_SELFTEST_CASES_C02"):     # own self-tests only (patched scratch trees under load): fewer cases
        ncases = int(os.environ["GV_SELFTEST_CASES_C02"])
    rc, so, se, cases, dt = gv.run_harness(binp, ["--seed", seed, "--cases", ncases, "--tier", tier, "--prop", "c02"],
                                           os.path.join(gv.BUILD, "out", "c02%s.jsonl" % TAG))
    if rc != 0:
        chk.violation("crash", {"what": "the harness crashed", "stderr": se, "broken": ["harness exit %d" % rc]}, no_input=True)
        return chk.finish(proof)
    okm, outm = gv.coq_make([gv.vo_target(r) for r in REQ_RUN])
    if not okm:
        chk.violation("model", {"what": "the executable model / specification no longer compiles", "log": outm[-3000:],
                                "broken": ["coq build of %s failed" % REQ_RUN]}, no_input=True)
        return chk.finish(proof)
    for c in cases:
        c["_args"] = base.split_term(c) + " " + dumps_of(c)
    # one evaluation per history (Run.v c02_report)
    vals = gv.coq_eval(PROP + "_oracle" + TAG, REQ_RUN, ["c02_report %s" % c["_args"] for c in cases], shard=8)
    checked = 0
    lists, kvals = [], []
    for c, v in zip(cases, vals):
        m = re.match(r"\((true|false), (\[.*?\]), (\d+), (\[[a-z; ]*\]), (\[[0-9; ]*\])\)$", v)
        if not m:
            raise RuntimeError("unexpected oracle value: %s" % v[:200])
        c["coq"] = m.group(1)       # the evaluated correspondence term (gv.standard_flow re-reads the literal)
        lists.append(m.group(2))
        c["checked_tx"] = int(m.group(3))
        checked += c["checked_tx"]
        kvals.append(dict(zip([1, 2, 5], base.parse_bools(m.group(4)))))
        c["ctl_fails"] = [int(x) for x in re.findall(r"\d+", m.group(5))]
    extra = base.derive_failures(cases, lists, kvals, CLASSES, "atomic_ok (dump pair)")
    # transaction control (Run.v ctl_fails): a Begin / Commit / Rollback whose outcome is not the state machine's is
    # a failure no finding explains
    for c in cases:
        if c["ctl_fails"]:
            c["oracle"] = "na"
            extra.append({"k": c["k"], "in": c["in"], "impl": c["impl"], "oracle": "fail", "nt": False,
                          "msg": "transaction control: the Begin / Commit / Rollback at step(s) %s of this history did not return the "
                                 "outcome of the transaction state machine (second_end_is_error, tx_control_follows_spec)"
                                 % ", ".join(str(x) for x in c["ctl_fails"][:6]),
                          "tags": ["oracle-fail:ctl"]})
    for c in cases:
        if c["checked_tx"] == 0 and c["oracle"] == "ok":
            c["oracle"] = "na"
    gv.standard_flow(chk, REQ_RUN, cases + extra, proof, "C02")
    chk.coverage["evaluations"] = len(cases)
    chk.coverage["transactions_checked"] = checked
    chk.coverage["tx_control_outcomes_wrong"] = sum(1 for c in cases if c.get("ctl_fails"))
    chk.coverage["histories_atomic_ok"] = sum(1 for c in cases if c["oracle"] == "ok")
    chk.coverage["histories_nontrivial_atomic_ok"] = sum(1 for c in cases if c["oracle"] == "ok" and c.get("nt"))
    chk.coverage["histories_with_failures"] = sum(1 for c in cases if c.get("fails"))
    chk.coverage["steps"] = sum(len(c["in"].split("; ")) for c in cases)
    chk.coverage["rule"] = ("starting graph (fixture + 0-2 committed transactions), then 1-2 transactions of 2-5 mutations each (other "
                            "sessions only read meanwhile), ended by commit / rollback / dropping the session, each enclosed by two dumps = "
                            "every node (labels, properties, single properties), edge, label scan, label count, raw label index, raw property "
                            "column, projection, unlabelled scan, count, neighbour lists, degrees, expands (typed / untyped, outgoing / incoming / "
                            "undirected), triples (SPARQL and RdfStore::find_with_pending), database counters, GrafeoDB::execute_cypher_with_params, "
                            "read by an observer session through randomly chosen entry points (GQL, Cypher, parameterised, Gremlin, GrafeoDB::execute*); a history is non-trivial when a transaction has >= 2 mutations of different kinds, ends by commit or "
                            "rollback and is followed by a dump; distinct = distinct operation list")
    chk.coverage["samples"] = [{"kind": c["k"], "input": c["in"][:300], "impl": c["impl"][:200]} for c in cases[6:9]]
    chk.coverage["trusted_base"] = [t.replace("checks/c01.py", "checks/c01.py, checks/c02.py") for t in base.TRUSTED]
    chk.assumptions = [
        "Session::commit cannot fail while the session holds a transaction (proved for the model: commit_never_fails; the "
        "manager's conflict loops range over write sets that the session path never fills), so 'a commit that reports an error' "
        "is not reachable through sessions and is not exercised",
        "hash-map iteration order is not observable: every list output is compared sorted",
        "MERGE, edge properties, property indexes: see level_note",
    ]
    return chk.finish(proof)


def replay(path, tier, seed):
    print(open(path).read())
    return run(tier, seed)
