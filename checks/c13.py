"""C13 — SPARQL answers equal evaluation over the stored triple set (DESIGN §8 C13)."""
import gv

PROP = "C13"
REQ_PROPS = ["GV.Props.Props_C13"]
REQ_RUN = ["GV.Rdf.Run"]
BINS = ["c13"]

TRUSTED = [
    "Coq 8.16.1 kernel (coqc; vm_compute used to run the models; no native_compute)",
    "hand-written model coq/Rdf/Model.v of graph/rdf/{term,triple,store}.rs, tied to the code by the differential run of this check (every accessor after every operation)",
    "hand-written model coq/Rdf/Engine.v of sparql_translator.rs + planner_rdf.rs + the physical operators on the generated core, tied by comparing row sequences of execute_sparql; the iteration order of the primary hash set is an observed input",
    "coq/Rdf/Algebra.v as the reading of the W3C SPARQL 1.1 algebra (sections 17, 18) restricted to the core",
    "harness/src/bin/c13.rs (generators, SPARQL text rendering of the query AST, printing of observations as Coq terms), checks/c13.py, lib/gv.py",
]

# finding classes of the SPARQL layer (k_class of Rdf/Run.v) -> finding ids of known.d/C13.json
KIDS = {2: "C13-S2", 3: "C13-S3", 4: "C13-S4", 5: "C13-S5", 6: "C13-S6", 8: "C13-S8"}   # S1, S7, S9 are repaired
KID_UPDATE = "C13-S10"


def swap(term, old, new):
    return term.replace(old + " ", new + " ", 1)


def decide_oracles(cases):
    """One Coq evaluation per case: (model == implementation, property oracle on the implementation's
    outputs, finding class).  both_store / both_select / both_update of Rdf/Run.v take the arguments
    of the correspondence term.  Afterwards `coq` holds the literal outcome of the correspondence
    comparison (the full term stays in `coq_full`), `oracle` the oracle's verdict and `kid`/`kcoq`
    the class predicate that Coq says applies (re-evaluated by standard_flow)."""
    idx, exprs = [], []
    for i, c in enumerate(cases):
        t = c.get("coq")
        if not t:
            continue
        e = swap(t, {"store": "chk_store", "select": "chk_select", "update": "chk_update"}[c["k"]],
                 {"store": "both_store", "select": "both_select", "update": "both_update"}[c["k"]])
        idx.append(i)
        exprs.append(e)
    # balance the shards: longest-processing-time-first packing by term size (the three large
    # data sets count eightfold), so that no shard is the long pole of the parallel evaluation
    shard = 40
    nb = max(1, (len(exprs) + shard - 1) // shard)
    cost = [len(e) * (8 if any("big" in t for t in cases[i].get("tags", [])) else 1) for i, e in zip(idx, exprs)]
    bins = [[0, []] for _ in range(nb)]
    for j in sorted(range(len(exprs)), key=lambda j: -cost[j]):
        b = min((b for b in bins if len(b[1]) < shard), key=lambda b: b[0])
        b[0] += cost[j]
        b[1].append(j)
    # coq_eval slices its input into consecutive blocks of `shard`: full bins first
    full = [b for b in bins if len(b[1]) == shard]
    rest = [b for b in bins if len(b[1]) < shard]
    packed = [j for b in full for j in b[1]] + [j for b in rest for j in b[1]]
    pvals = gv.coq_eval(PROP + "_both", REQ_RUN, [exprs[j] for j in packed], shard=shard)
    vals = [None] * len(exprs)
    for j, v in zip(packed, pvals):
        vals[j] = v
    for i, v in zip(idx, vals):
        c = cases[i]
        parts = [x.strip() for x in v.strip("()").split(",")]
        c["coq_full"] = c["coq"]
        c["coq"] = "true" if parts[0] == "true" else "false"
        if c["k"] == "select" and len(parts) > 3 and parts[3] == "true":
            # the engine model answers Unsup: no prediction, so no row-for-row comparison; the
            # oracle below still judges the implementation's answer
            c["coq"] = "true"
            c["not_modelled"] = True
            c.setdefault("tags", []).append("sparql:model-unsup(not compared)")
        if c.get("oracle") == "fail":      # a panic: decided by the harness
            continue
        ok = len(parts) > 1 and parts[1] == "true"
        c["oracle"] = "ok" if ok else "fail"
        if ok:
            continue
        c["msg"] = {"store": "an accessor does not describe the set of triples the operations define",
                    "select": "execute_sparql does not return the solutions of the W3C algebra over the stored triples",
                    "update": "the store after the update is not the set union/difference"}[c["k"]]
        try:
            k = int(parts[2]) if len(parts) > 2 else 0
        except ValueError:
            k = 0
        if c["k"] == "select" and k in KIDS:
            c["kid"] = KIDS[k]
            c["kcoq"] = swap(c["coq_full"], "chk_select", "k_is %d" % k)
            c.setdefault("tags", []).append("finding:%s" % KIDS[k])
        elif c["k"] == "update" and k == 10:
            c["kid"] = KID_UPDATE
            c["kcoq"] = swap(c["coq_full"], "chk_update", "k_upd")
            c.setdefault("tags", []).append("finding:%s" % KID_UPDATE)
    return len(exprs)


def run(tier, seed):
    chk = gv.Check(PROP, tier, seed, level="proof")
    proof = gv.proof_status(PROP, REQ_PROPS)
    # 900 cases on the pinned tree; x3 / x8 when /repo (an anchored file) moved (gv.scaled).
    # GV_C13_CASES: debugging knob for self-tests under load only (the registered commands never set it);
    # the generated cases of a smaller count are a prefix of those of a larger one.
    ncases = gv.scaled(PROP, tier, 900, 12000, chk)
    if gv.os.environ.get("GV_C13_CASES"):
        ncases = int(gv.os.environ["GV_C13_CASES"])
        chk.notes.append("GV_C13_CASES=%d overrides the case count" % ncases)
    ok, out, binp = gv.cargo_build("c13")
    if not ok:
        chk.violation("build", {"what": "the harness no longer builds against /repo's working tree", "log": out[-3000:],
                                "broken": ["correspondence C13: harness build failed"]}, no_input=True)
        return chk.finish(proof)
    rc, so, se, cases, dt = gv.run_harness(binp, ["--seed", seed, "--cases", ncases, "--tier", tier],
                                           gv.os.path.join(gv.BUILD, "out", "c13.jsonl"), timeout=900)
    if rc != 0:
        chk.violation("crash", {"what": "the harness crashed or did not terminate (a query that hangs the engine shows up here)",
                                "stderr": se, "broken": ["harness exit %d" % rc]}, no_input=True)
        return chk.finish(proof)
    okm, outm = gv.coq_make([gv.vo_target(r) for r in REQ_RUN])
    if not okm:
        chk.violation("model", {"what": "the executable model no longer compiles", "broken": ["coq build of %s failed" % REQ_RUN],
                                "log": outm[-3000:]}, no_input=True)
        return chk.finish(proof)
    n_or = decide_oracles(cases)
    gv.standard_flow(chk, REQ_RUN, cases, proof, "C13")
    chk.coverage["oracle_evaluations_in_coq"] = n_or
    nm = [c for c in cases if c.get("not_modelled")]
    chk.coverage["not_modelled_by_engine_model"] = {
        "count": len(nm),
        "what": "SELECT cases for which the engine model answers Unsup (a UNION of branches with different numbers of columns "
                "feeding a join, sort or DISTINCT): not compared row for row, judged by the oracle only",
        "oracle_failed": sum(1 for c in nm if c.get("oracle") == "fail"),
        "samples": [c["in"][:300] for c in nm[:3]],
    }
    chk.coverage["traces_validated_against_impl"] = chk.coverage.get("traces_validated_against_impl", 0) - len(nm)
    chk.coverage["rule"] = (
        "store: sequences of 1-40 operations (insert / duplicate insert / remove of present and absent triples / clear / "
        "insert_in_tx, remove_in_tx, commit_tx, rollback_tx) over 3-9 terms with delicate equalities, both store configurations, "
        "every accessor (len, is_empty, triples, subjects, predicates, objects, stats, triples_with_* for every term, find for the 8 "
        "shapes of two probe triples, contains, has_pending_ops, find_with_pending) after every operation; non-trivial = the sequence "
        "contains a duplicate insert or a remove.  sparql: 0-10 triples (clean or dirty data profile; three fixed cases with 1051 triples, "
        "more than the scan chunk size), SELECT queries of the shapes "
        "bgp/join/filter/optional/union/distinct/order+limit/count and INSERT DATA / DELETE DATA; non-trivial = at least two triple "
        "patterns sharing a variable (updates: more than one triple or a triple already stored); distinct = distinct (kind,input)")
    chk.coverage["samples"] = [{"kind": c["k"], "input": c["in"][:300], "impl": c["impl"][:300], "oracle": c.get("oracle")} for c in cases[26:34]]
    chk.coverage["trusted_base"] = TRUSTED
    chk.assumptions = [
        "hash iteration order of RdfStore::triples() is stable between two calls without a mutation in between (it is passed to the engine model as an input)",
        "f64 parsing/comparison inside FILTER is exact on the generated lexical forms (optional sign + decimal digits, |n| < 10^6)",
        "result chunks stay below the 1024/2048 row chunk capacities (data sets of at most 10 triples, at most 3+2 triple patterns)",
        "SPARQL parser, property paths, GROUP BY and aggregates other than COUNT(*), named graphs, MINUS/BIND/VALUES/EXISTS, DELETE/INSERT WHERE, "
        "the ring index and statistics/rdf.rs are outside the modelled core: see level_note",
    ]
    return chk.finish(proof)


def replay(path, tier, seed):
    print(open(path).read())
    return run(tier, seed)
