"""C05 — a persistent database reopens to exactly the state it was closed with (DESIGN §8 C05).
Shares the harness binary `c05` and the Coq area `Wal` with C06 and C07 (checks/c06.py and
checks/c07.py import the flow from here)."""
import gv

REQ_PROPS = ["GV.Props.Props_C05"]
REQ_RUN = ["GV.Wal.Run"]
BINS = ["c05"]

os = gv.os

TRUSTED = [
    "Coq 8.16.1 kernel (coqc; vm_compute used to run the model; no native_compute)",
    "hand-written models coq/Wal/{Frame,Disk,Recover,Db,Snap,Codec}.v of crates/grafeo-adapters/src/storage/wal/{log,recovery,record}.rs and of "
    "the persistence glue of crates/grafeo-engine/src/database.rs (with_config/apply_wal_records/close/wal_checkpoint/create_*/set_*/delete_*/"
    "remove_*_property/save/to_memory/export_snapshot/import_snapshot), tied to the code by the differential run of this check",
    "coq/Value/Bincode.v (C16's model of bincode 2 standard()) for the byte codecs; crc32 of Wal/Codec.v; both compared with the real "
    "functions (bincode, crc32fast) on every record, payload and snapshot of the run",
    "file system: a file is a byte string of which a prefix containing the fsynced bytes survives a crash; rename is atomic "
    "(the harness produces crash images by cutting copies of the files; no real power loss); fsync calls are observed by defining "
    "`fsync` in the harness binary itself (every File::sync_all of the linked crates lands there), sync_data is not used by the WAL",
    "harness/src/bin/c05.rs (generators, printing of observations as Coq terms, the oracles on the implementation's answers), checks/c05.py, lib/gv.py",
]

# case budget per tier: (--cases argument of the harness)
NCASES = {"C05": (150, 1000), "C06": (90, 400), "C07": (240, 1600)}

_orig_eval = gv.coq_eval


def _eval_by_size(name, requires, exprs, shard=None, budget=140000):
    """Same evaluation as gv.coq_eval, only the batching differs: the terms of this area carry byte
    tables (some are 50 kB, some 200 bytes), so shards are cut by total size instead of by count."""
    if not exprs:
        return []
    tag = getattr(gv, "OUT_TAG", "")
    d = os.path.join(gv.BUILD, "cases", (tag + "_" if tag else "") + name)
    gv.shutil.rmtree(d, ignore_errors=True)
    os.makedirs(d)
    jobs, cur, size = [], [], 0
    for e in exprs:
        if cur and (size + len(e) > budget or len(cur) >= 400):
            jobs.append(cur)
            cur, size = [], 0
        cur.append(e)
        size += len(e)
    if cur:
        jobs.append(cur)
    jobs = [(os.path.join(d, "S%04d.v" % i), requires, j) for i, j in enumerate(jobs)]
    out = []
    with gv.concurrent.futures.ThreadPoolExecutor(max_workers=gv.NCPU) as ex:
        for (vals, raw), job in zip(ex.map(gv._eval_shard, jobs), jobs):
            if vals is None or len(vals) != len(job[2]):
                raise RuntimeError("coqc failed on %s:\n%s" % (job[0], (raw or "")[-3000:]))
            out.extend(vals)
    return out


def wal_flow(prop, tier, seed, rule, assumptions, replay_cases=None):
    gv.coq_eval = _eval_by_size
    try:
        chk = gv.Check(prop, tier, seed, level="proof")
        proof = gv.proof_status(prop, ["GV.Props.Props_%s" % prop])
        tag = os.environ.get("GV_OUT_TAG", "")
        scratch = os.path.join(gv.BUILD, "scratch" + ("-" + tag if tag else ""))
        os.makedirs(scratch, exist_ok=True)
        ok, out, binp = gv.cargo_build("c05")
        if not ok:
            chk.violation("build", {"what": "the harness no longer builds against /repo's working tree", "log": out[-3000:],
                                    "broken": ["correspondence %s: harness build failed" % prop]}, no_input=True)
            return chk.finish(proof)
        n = NCASES[prop][0 if tier == "quick" else 1]
        n = int(os.environ.get("GV_WAL_CASES", n))
        rc, so, se, cases, dt = gv.run_harness(binp, ["--prop", prop, "--seed", seed, "--cases", n, "--tier", tier],
                                               os.path.join(gv.BUILD, "out", "%s%s.jsonl" % (prop.lower(), tag)), timeout=2400,
                                               env={"GV_SCRATCH": scratch})
        # nothing a case needs stays behind
        gv.shutil.rmtree(os.path.join(scratch, prop.lower()), ignore_errors=True)
        if rc != 0:
            chk.violation("crash", {"what": "the harness crashed", "stderr": se, "broken": ["harness exit %d" % rc]}, no_input=True)
            return chk.finish(proof)
        gv.standard_flow(chk, REQ_RUN, cases, proof, prop)
        chk.coverage["rule"] = rule
        chk.coverage["harness_seconds"] = round(dt, 1)
        picks = [c for c in cases if "corpus" not in c.get("tags", [])]
        chk.coverage["samples"] = [{"kind": c["k"], "input": c["in"][:400], "impl": c["impl"][:300]} for c in picks[3:6] + picks[-3:]]
        chk.coverage["trusted_base"] = TRUSTED
        chk.assumptions = assumptions
        return chk.finish(proof)
    finally:
        gv.coq_eval = _orig_eval


RULE = ("histories of a persistent GrafeoDB: 1-3 sessions of 1-9 API calls each (create/delete node and edge, set property with every "
        "value type incl. NaN payloads, empty strings, nested lists/maps, vectors; labels; explicit wal_checkpoint/rotate/sync; "
        "remove_*_property; session and query mutations), every session ended by close()+reopen, all four durability modes; compared per "
        "session: every return value, the graph dump at the store epoch and at the latest epoch before close, the bytes of every log "
        "file and checkpoint.meta after close, the dumps after reopen; oracle: dump after reopen == dump before close. Plus WalManager-level "
        "operation sequences (log/sync/rotate/checkpoint/reopen with max_log_size 100..64MiB): file lengths after every operation, final "
        "bytes, metadata and recover() output; damaged record payloads through the decoder; every bincode/crc32 table entry against the "
        "concrete codec model. non-trivial = a history with at least two kinds of operation; distinct = distinct (kind, input)")

ASSUMPTIONS = [
    "single-threaded use of one GrafeoDB/WalManager (no concurrent writers; C20 covers interleavings)",
    "the theorems quantify over an abstract checksum and record codec with explicit premises (crc in u32 range, dec (enc r) = Some r, "
    "|enc r| < 2^32); the concrete codec of Wal/Codec.v is proved to satisfy them on well-formed records and is compared with bincode/"
    "crc32fast on every record of the run",
    "Batch durability: the clock enters as an input (max_delay_ms = 0: always elapsed; 10^9: never)",
    "ids >= 40 are not dumped by the harness (histories create fewer entities); u64 overflow of the id counters is not modelled except "
    "for the +1 in create_*_with_id (C07-K3)",
]


def run(tier, seed):
    return wal_flow("C05", tier, seed, RULE, ASSUMPTIONS)


def wal_replay(prop, path, tier, seed, runner):
    """A replay file names the failing case by kind and input; the harness is deterministic in
    (seed, tier), so the case is reproduced by re-running the stream and the three views of it
    (implementation, model, verdict) are printed before the full decision is taken again."""
    print(open(path).read())
    try:
        data = gv.json.load(open(path))
    except Exception:
        data = {}
    rc = runner(tier, seed)
    want = data.get("input")
    if want:
        outp = os.path.join(gv.BUILD, "out", "%s%s.jsonl" % (prop.lower(), os.environ.get("GV_OUT_TAG", "")))
        if os.path.exists(outp):
            for line in open(outp):
                c = gv.json.loads(line)
                if c.get("in") == want and c.get("k") == data.get("kind"):
                    print("input          :", c["in"])
                    print("implementation :", c["impl"])
                    try:
                        terms = [c["coq"]] + ([c["show"]] if c.get("show") else [])
                        vals = _eval_by_size(prop + "_replay", REQ_RUN, terms)
                        print("model == implementation :", vals[0])
                        if len(vals) > 1:
                            print("model          :", vals[1][:3000])
                    except RuntimeError as e:
                        print("model evaluation failed:", str(e)[-500:])
                    print("property oracle on the implementation's answers:", c.get("oracle"), c.get("msg", ""))
                    break
    return rc


def replay(path, tier, seed):
    return wal_replay("C05", path, tier, seed, run)
