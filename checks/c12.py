"""C12 — no query text can crash or hang the embedding process (DESIGN §8 C12).

Partial by construction.  What a run does:

  proofs          props/C12.statements pinned against coq/Props/Props_C12.v (cursor safety of the
                  transcribed lexers, lexer termination, totality of the filter arithmetic and of the
                  index/slice arithmetic, progress of the transcribed parser loops, depth counter)
  correspondence  the five real lexers against the cursor programs of coq/Lex/Lexers.v, token by token
                  (class and byte span, or panic); filter.rs arithmetic / index / slice evaluation
                  against coq/Lex/Arith.v — every `coq` term of the harness must evaluate to true
  search          tens of thousands of generated strings (+ parameter maps) through parse, translate_*
                  and Session::execute* of the five front ends on an empty and a populated database.
                  The implementation runs in worker CHILD PROCESSES of the harness: a panic is caught
                  there, a hang is ended by a watchdog (2 s, confirmed twice with 4 s), a stack overflow
                  is the worker's SIGABRT, runaway allocation ends at the worker's address-space limit.
                  Nesting-depth probes (bisection of the depth at which the worker dies).
  decision        every failure of the search must belong to an open finding of known.d/C12.json AND
                  satisfy that finding's class predicate evaluated in Coq (coq/Lex/Run.v, Progress.v);
                  anything else is a VIOLATION with the failing text as replay.
"""
import json
import os
import subprocess

import gv

PROP = "C12"
REQ_PROPS = ["GV.Props.Props_C12"]
REQ_RUN = ["GV.Lex.Run"]
BINS = ["c12"]

TRUSTED = [
    "Coq 8.16.1 kernel (coqc; vm_compute runs the lexer / arithmetic models and the finding-class predicates; no native_compute)",
    "hand-written models: coq/Lex/Lexers.v (the five lexers as cursor programs), coq/Lex/Arith.v (filter.rs integer, index and slice "
    "arithmetic), coq/Lex/Progress.v (parser loop tables, recursion skeleton) — tied to the code by the differential run of this check "
    "(lexers, arithmetic) or only by reading (loop tables, recursion skeleton)",
    "harness/src/bin/c12.rs (+ c12_gen.in, c12_main.in, c12_seeds.in): generators, worker processes, 2 s watchdog, 4 GiB address-space "
    "limit per worker, classification of character classes by Rust's own char::is_alphabetic/is_numeric/is_whitespace; lib/gv.py",
    "the search is a search: grammars, translators, binder, optimizer, planner and executors are NOT covered by any theorem",
]

ASSUMPTIONS = [
    "the character classification flags handed to the lexer models are those of Rust's char methods (computed by the harness with the "
    "same toolchain); the model's own White_Space table is compared with char::is_whitespace on every character of every run",
    "a worker that answers within the watchdog time on this machine is taken as 'returns in bounded time'; a hang counts only when it "
    "is reproduced twice on fresh workers with a doubled watchdog",
    "the main thread of a worker has the default 8 MiB stack: depths that survive here may still overflow a 2 MiB thread of an "
    "embedding application (this is exactly finding C12-K3: the safe depth is a property of the caller's stack, not of the input)",
]

HARNESS_TIMEOUT = {"quick": 900, "thorough": 3000}


LOOP_PIN = os.path.join(gv.ROOT, "checks", "c12_loop_headers.json")


def parser_loop_headers(repo):
    """The while/loop statements of the five parsers (outside their test modules) as 'fn name: header'."""
    import re
    out = {}
    for lang in ["gql", "cypher", "sparql", "gremlin", "graphql"]:
        path = os.path.join(repo, "crates", "grafeo-adapters", "src", "query", lang, "parser.rs")
        src = open(path, encoding="utf-8").read().split("#[cfg(test)]")[0]
        fn = "?"
        hs = []
        for line in src.split("\n"):
            m = re.match(r"^\s*(?:pub(?:\([a-z]+\))?\s+)?fn\s+(\w+)", line)
            if m:
                fn = m.group(1)
                if fn.endswith("_inner"):      # a wrapper/worker split of a function keeps its loops
                    fn = fn[:-len("_inner")]
            if re.match(r"^\s*(while|loop)\b", line):
                hs.append("%s: %s" % (fn, " ".join(line.split())))
        out[lang] = sorted(hs)
    return out


def _loop_pin(chk):
    """coq/Lex/Progress.v was transcribed from the parsers by reading.  The loop statements it was transcribed
    from are pinned in checks/c12_loop_headers.json; when a parser gains, loses or changes a loop the tables no
    longer describe the code and the loop-progress theorems say nothing about it: reported as a broken
    correspondence (re-transcribe the loop, extend Progress.v, regenerate the pin file)."""
    repo = os.environ.get("GV_REPO_DIR", "/repo")
    try:
        now = parser_loop_headers(repo)
        pinned = json.load(open(LOOP_PIN))
    except (OSError, ValueError) as e:
        return ["loop pin: cannot read the parsers or the pin file: %s" % e]
    diffs = []
    for lang in pinned:
        a, b = list(pinned[lang]), list(now.get(lang, []))
        for h in a:
            if h in b:
                b.remove(h)
            else:
                diffs.append("%s parser: transcribed loop no longer in the code: %s" % (lang, h))
        for h in b:
            diffs.append("%s parser: loop not transcribed in coq/Lex/Progress.v: %s" % (lang, h))
    chk.coverage["parser_loops_pinned"] = sum(len(v) for v in pinned.values())
    return diffs


def _nest_table(cases):
    rows = []
    for c in cases:
        for t in c.get("tags", []):
            if t.startswith("nest-threshold:") or t.startswith("nest-no-crash-up-to:"):
                rows.append(t)
    return sorted(rows)


def _relabel_graphql(chk, cases):
    """A GraphQL 'not a char boundary' panic has two known sources.  The harness labels them all C12-K1
    (k_graphql_peek_next = the lexer model crashes); the ones on which Coq says that the lexer model gets
    through and the transcribed dedent_block_string crashes are re-labelled C12-K7 here."""
    idx = [i for i, c in enumerate(cases) if c.get("oracle") == "fail" and c.get("kid") == "C12-K1"
           and (c.get("kcoq") or "").startswith("k_graphql_peek_next ")]
    if not idx:
        return
    ok, out = gv.coq_make([gv.vo_target(r) for r in REQ_RUN])
    if not ok:
        return                      # standard_flow reports the broken model
    terms = ["k_graphql_dedent " + cases[i]["kcoq"][len("k_graphql_peek_next "):] for i in idx]
    vals = gv.coq_eval(PROP + "_k7", REQ_RUN, terms)
    for i, t, v in zip(idx, terms, vals):
        if v == "true":
            cases[i]["kid"] = "C12-K7"
            cases[i]["kcoq"] = t


def _flow(chk, cases, proof):
    _relabel_graphql(chk, cases)
    mism, unlisted = gv.standard_flow(chk, REQ_RUN, cases, proof, "Lex (lexers, filter arithmetic, index arithmetic)")
    fails = [c for c in cases if c.get("oracle") == "fail"]
    chk.coverage["failure_classes"] = gv.histogram(
        [{"k": "%s %s" % (c.get("kid", "UNLISTED"), c["k"])} for c in fails])
    chk.coverage["nesting_thresholds"] = _nest_table(cases)
    chk.coverage["search_strings"] = len([c for c in cases if c["k"].startswith("oracle-")])
    chk.coverage["lexer_cases"] = len([c for c in cases if c["k"].startswith("lex-")])
    chk.coverage["arithmetic_cases"] = len([c for c in cases if c["k"].startswith(("arith", "index", "slice"))])
    return mism, unlisted


def _harness(chk, proof, tier, seed, extra_args=()):
    ok, out, binp = gv.cargo_build("c12")
    if not ok:
        chk.violation("build", {"what": "the harness no longer builds against /repo's working tree", "log": out[-3000:],
                                "broken": ["correspondence C12: harness build failed"]}, no_input=True)
        return None
    ncases = 1500 if tier == "quick" else 12000
    tag = os.environ.get("GV_OUT_TAG", "")
    outp = os.path.join(gv.BUILD, "out", "c12_%s%s.jsonl" % (tier, tag))
    try:
        rc, so, se, cs, dt = gv.run_harness(binp, ["--seed", seed, "--cases", ncases, "--tier", tier] + list(extra_args), outp,
                                            timeout=HARNESS_TIMEOUT[tier])
    except subprocess.TimeoutExpired:
        chk.violation("harness-timeout", {"what": "the harness did not finish within %d s: some call on the in-process part "
                                                  "(lexer correspondence, filter arithmetic) does not return" % HARNESS_TIMEOUT[tier],
                                          "broken": ["harness timeout"]}, no_input=True)
        return None
    if rc != 0:
        # the in-process part (real lexers, filter.rs evaluation) died in a way catch_unwind cannot see
        chk.violation("crash", {"what": "the harness died (exit %s): the in-process part (lexer correspondence / filter arithmetic) aborted "
                                        "the process; the last emitted case precedes the culprit" % rc,
                                "stderr": se, "last_case": cs[-1] if cs else None, "broken": ["harness exit %s" % rc]}, no_input=True)
        return None
    chk.coverage["harness_wall_s"] = round(dt, 1)
    chk.coverage["harness_log"] = [l for l in se.split("\n") if l.startswith("c12:") and "nest " not in l]
    return cs


def run(tier, seed):
    chk = gv.Check(PROP, tier, seed, level="proof")
    proof = gv.proof_status(PROP, REQ_PROPS)
    cases = _harness(chk, proof, tier, seed)
    if cases is None:
        return chk.finish(proof)
    _flow(chk, cases, proof)
    loop_diffs = _loop_pin(chk)
    if loop_diffs and not chk.violations:
        chk.violation("loops", {"what": "the parser loops that coq/Lex/Progress.v transcribes have changed; the loop-progress theorems no longer "
                                        "describe the code and no failing input was found by the search",
                                "broken": loop_diffs[:20]}, no_input=True)
    elif loop_diffs:
        chk.notes.append("parser loops changed: " + "; ".join(loop_diffs[:5]))
    chk.coverage["rule"] = (
        "lexer cases: every seed query of the five languages, witnesses, a character of every UTF-8 width (and NBSP, U+0001) inserted at "
        "every position of rotating seeds, every prefix, then token-/character-/byte-level mutations — each compared token by token with the "
        "model; arithmetic: boundary pairs (i64::MIN/MAX, 0, -1, sqrt(2^63)) x 5 operators directly and through Cypher queries over stored "
        "properties and parameters, random expressions of depth <= 3, list/string index and slice with indexes around 0, +-len, i64::MIN/MAX; "
        "search: corpus of finding witnesses, every seed with/without parameters, every prefix of every seed, odd characters at every "
        "position, 40k (quick) / 200k (thorough) mutated strings, 1/3 with parameter maps, through 4 stages (parse, translate, execute on "
        "empty, execute on populated db); nesting: 32 constructs, depth 128 (4000 for operator chains) always, then doubling up to 32768 + bisection; the old witnesses of the fixed findings (deep nests, SPARQL stall class: all ~9k generated members are run) must return. "
        "A case is non-trivial when it has >= 4 (lexer) / >= 8 (search) characters or a boundary operand; distinct = distinct (kind, input)")
    samples = []
    seen = set()
    for c in cases:
        key = c["k"] + (c.get("tags") or [""])[0]
        if key not in seen and len(samples) < 24:
            seen.add(key)
            samples.append({"kind": c["k"], "input": c["in"][:160], "impl": c.get("impl", "")[:160], "tags": c.get("tags", [])[:3]})
    chk.coverage["samples"] = samples
    chk.coverage["trusted_base"] = TRUSTED
    chk.coverage["not_covered"] = (
        "no theorem covers: the grammars beyond the listed loops, the translators, binder, optimizer, planner, operators other than the "
        "integer arithmetic / index / slice evaluation of filter.rs, memory use, the C/Python/Node bindings' unwinding across FFI")
    chk.assumptions = ASSUMPTIONS
    return chk.finish(proof)


def replay(path, tier, seed):
    """Re-runs the failing text of a replay file through the real front end (in a worker child process),
    prints implementation outcome and — for lexer / arithmetic cases — the model's value, then re-decides."""
    txt = open(path).read()
    print(txt)
    try:
        obj = json.loads(txt)
    except ValueError:
        obj = {}
    kind = obj.get("kind", "")
    if kind.startswith(("oracle-", "lex-")) and "input" in obj:
        lang = kind.split("-", 1)[1]
        ok, out, binp = gv.cargo_build("c12")
        if ok:
            p = subprocess.run([binp, "--one", lang, obj["input"].encode("utf-8").hex()], stdout=subprocess.PIPE, stderr=subprocess.STDOUT,
                               text=True, timeout=120, errors="replace", cwd=gv.BUILD)
            print("implementation now:\n" + p.stdout)
    return run(tier, seed)
