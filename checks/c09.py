"""C09 — the optimizer never changes a query's answer (DESIGN §8 C08–C11, "C09 theorems")."""
import gv

PROP = "C09"
REQ_PROPS = ["GV.Props.Props_C09"]
REQ_RUN = ["GV.Query.RunOpt"]
BINS = ["c09"]

TRUSTED = [
    "Coq 8.16.1 kernel (coqc; vm_compute used to run the model; no native_compute)",
    "hand-written model coq/Query/{Plan,Opt}.v of query/plan.rs (core), query/optimizer/mod.rs (push_filters_down, try_push_filter_into, "
    "the variable collectors, push_projections_*, collect_join_tree/extract_join_tree/JoinGraphBuilder) and of what planner.rs makes of the "
    "core operators; tied to the code by this check: plan-before/plan-after under the 8 switch combinations (chk_opts) and engine rows vs sem_e (chk_sem)",
    "the DPccp search (join_order.rs) is not transcribed: its result is validated per case against the relation reorder_chk "
    "(all-Inner tree over the collected relations, each node carrying exactly the crossing graph edges, fires iff the join graph is connected)",
    "harness/src/bin/c09.rs (query/graph/plan generators, rendering to GQL, dumping plans and rows as Coq terms, the 8x3 oracle), lib/gv.py, checks/c09.py",
]

# C09-K3 (class 3, stacked filters) was repaired by df57ccb: the class no longer exists in k_class_g
KIDS = {1: "C09-K1", 2: "C09-K2", 4: "C09-K4", 5: "C09-K5"}


_coq_eval = gv.coq_eval


def _coq_eval_sharded(name, requires, exprs, shard=250):
    """same evaluation, but in shards small enough to use all cores (gv's default is 250 terms/shard)"""
    n = max(12, min(shard, len(exprs) // (2 * gv.NCPU) + 1))
    return _coq_eval(name, requires, exprs, shard=n)


gv.coq_eval = _coq_eval_sharded


def classify(cases):
    """The harness marks an oracle failure with kcoq = `k_class_cfg G b afters bad` (a number decided in
    Coq from the switch combinations `bad` whose rows differ from the reference run: 0 = some differing
    combination is excused by no listed class, else the class of the first one: 1 push scope, 2 reorder,
    4 edge property above a join, 5 two-hop chain with a hop that matches nothing).  Turn it into
    the finding id + a boolean class term, which is what gv.standard_flow decides on."""
    idx = [i for i, c in enumerate(cases) if c.get("oracle") == "fail" and c.get("kcoq")]
    if not idx:
        return
    vals = gv.coq_eval(PROP + "_class", REQ_RUN, [cases[i]["kcoq"] for i in idx], shard=40)
    for i, v in zip(idx, vals):
        m = gv.re.match(r"(\d+)", v)
        n = int(m.group(1)) if m else 0
        c = cases[i]
        c.setdefault("tags", []).append("class-%d" % n)
        if n in KIDS:
            c["kid"] = KIDS[n]
            c["kcoq"] = "Nat.eqb (%s) %d%%nat" % (c["kcoq"], n)
        else:
            c.pop("kid", None)
            c.pop("kcoq", None)


def run(tier, seed):
    chk = gv.Check(PROP, tier, seed, level="proof")
    # until the integrator has merged known.d/C09.json into known-findings.json, read the fragment
    frag = gv.os.path.join(gv.ROOT, "known.d", "C09.json")
    if gv.os.path.exists(frag):
        have = {f["id"] for f in chk.known}
        chk.known += [f for f in gv.json.load(open(frag)).get("findings", []) if f.get("property") == PROP and f["id"] not in have]
    proof = gv.proof_status(PROP, REQ_PROPS)
    ncases = 450 if tier == "quick" else 4000
    if gv.os.environ.get("GV_C09_CASES"):   # self-tests under machine load: a prefix of the same case stream
        ncases = int(gv.os.environ["GV_C09_CASES"])
    ok, out, binp = gv.cargo_build("c09")
    if not ok:
        chk.violation("build", {"what": "the harness no longer builds against /repo's working tree", "log": out[-3000:],
                                "broken": ["correspondence C09: harness build failed"]}, no_input=True)
        return chk.finish(proof)
    rc, so, se, cases, dt = gv.run_harness(binp, ["--seed", seed, "--cases", ncases, "--tier", tier],
                                           gv.os.path.join(gv.BUILD, "out", "c09.jsonl"))
    if rc != 0:
        chk.violation("crash", {"what": "the harness crashed", "stderr": se, "broken": ["harness exit %d" % rc]}, no_input=True)
        return chk.finish(proof)
    ok, out = gv.coq_make([gv.vo_target(r) for r in REQ_RUN])
    if ok:
        classify(cases)
    gv.standard_flow(chk, REQ_RUN, cases, proof, "C09")
    chk.coverage["rule"] = (
        "generated GQL core queries (1-3 MATCH clauses incl. comma patterns and OPTIONAL MATCH, 0-2 hops, WHERE conjunctions/disjunctions over one or "
        "several pattern parts, WITH with renamed/computed columns + WHERE + DISTINCT, count with/without grouping, ORDER BY, SKIP/LIMIT) and hand-built "
        "plans (2-4 scans joined by Inner/Cross/Left joins with variable conditions, filters on leaves/sub-trees/top) over generated graphs of 0-10 nodes / "
        "0-14 edges; each is optimized under the 8 switch combinations and executed under 8 x {fresh, stale, absent} statistics; a case is non-trivial when "
        "the optimized plan differs structurally from the input plan under some combination (opt kinds) or the result is non-empty (sem kinds); "
        "distinct = distinct (kind,input)")
    samples = [c for c in cases if c.get("nt") and c["k"] in ("gql", "plan")][:3] + [c for c in cases if c["k"].endswith("-sem") and c.get("nt")][:2]
    chk.coverage["samples"] = [{"kind": c["k"], "input": c["in"][:300], "impl": c["impl"][:200]} for c in samples]
    chk.coverage["trusted_base"] = TRUSTED
    chk.coverage["harness_seconds"] = round(dt, 1)
    chk.assumptions = [
        "sem_e models the selection-vector behaviour of FilterOperator for results that fit one 2048-row chunk (generated graphs keep every intermediate "
        "result far below that); since df57ccb it is proved equal to sem for every plan (engine_filters_agree)",
        "rows are compared as multisets, as sequences only under ORDER BY on a total key; queries with SKIP/LIMIT, OPTIONAL MATCH, two-hop patterns "
        "(factorized chain operator), an edge property above a join, an expression outside the modelled core (dumped as EOpaque: function calls, CASE) are checked by the plan correspondence and the 24-run oracle only, not against sem_e",
        "no explicit transactions, labelled scans only (the store-epoch defect of C01 is kept out)",
    ]
    return chk.finish(proof)


def replay(path, tier, seed):
    print(open(path).read())
    return run(tier, seed)
