"""C20 — concurrent use is safe (DESIGN §8 C20).

Theorems about the step-granularity thread-pool model coq/Conc (pinned by props/C20.statements); the tie is a
deterministic scheduler in harness/src/bin/c20.rs that drives real threads through the real code along
generated and enumerated schedules (yield-point hook 45dda10 of /repo) and compares, per schedule, the yield
site at which every step ended, the per-thread outputs and the post-quiescence observations with the model run
on the same schedule.  The property oracle (cross-checks + "equal to some sequential order") is a Coq predicate
evaluated on the implementation's observation."""
import gv

PROP = "C20"
REQ_PROPS = ["GV.Props.Props_C20"]
REQ_RUN = ["GV.Conc.Run"]
BINS = ["c20"]

TRUSTED = [
    "Coq 8.16.1 kernel (coqc; vm_compute used to run the model; no native_compute)",
    "hand-written step-wise model coq/Conc/{Sem,Ops}.v of LpgStore::{create_node_versioned,delete_node_at_epoch,add_label,remove_label,"
    "create_edge_versioned,delete_edge_at_epoch}, RdfStore::{insert,remove}, TransactionManager::{begin_with_isolation,commit,abort}, "
    "BufferManager::{try_allocate,try_allocate_raw,release} + MemoryGrant::{resize,drop}, WalManager::{log,rotate}, set_node_property; "
    "tied to the code by the scheduler-driven differential run of this check (sites, outputs, final state per schedule)",
    "ATOMICITY OF A STEP: the code between two yield points is treated as one atomic step.  The scheduler never runs two threads "
    "at once, so data races inside a critical section, the effects of Relaxed/Acquire atomics under real parallelism and any lock "
    "that is taken and released inside one step are outside the model; only the hook-free stress phases (searched, not proved) look there",
    "the lock footprint table of Ops.v (glocks/qlocks/mlocks/blocks/wlocks and the tr_* reader traces) was transcribed by reading the code; "
    "parking_lot locks are not instrumented, so the table is tied to the code only through the deadlock searches",
    "harness/src/bin/c20*.rs / c20_*.in (scheduler, generators, observers, printing of observations as Coq terms), checks/c20.py, lib/gv.py",
    "the cfg(grafeo_verif) hook itself (grafeo_common::verif, 45dda10): a yield point is placed where no lock of the operation is held",
]

_coq_eval = gv.coq_eval


def _coq_eval_small(name, requires, exprs, shard=120):
    """Same function as gv.coq_eval, other batching; a term that is already the literal `true`/`false` (the first
    component of a pair evaluated before) is not sent through coqc a second time."""
    todo = [i for i, e in enumerate(exprs) if e not in ("true", "false")]
    vals = _coq_eval(name, requires, [exprs[i] for i in todo], shard=shard)
    out = list(exprs)
    for i, v in zip(todo, vals):
        out[i] = v
    return out


def flow(tier, seed, only=None):
    gv.coq_eval = _coq_eval_small
    chk = gv.Check(PROP, tier, seed, level="proof")
    proof = gv.proof_status(PROP, REQ_PROPS)
    ncases = 600 if tier == "quick" else 6000
    # development aids (never set by the registered commands): run one phase only / another number of random cases
    only = only or gv.os.environ.get("C20_ONLY")
    if gv.os.environ.get("C20_CASES"):
        ncases = int(gv.os.environ["C20_CASES"])
    ok, out, binp = gv.cargo_build("c20")
    if not ok:
        chk.violation("build", {"what": "the harness no longer builds against /repo's working tree", "log": out[-3000:],
                                "broken": ["correspondence C20: harness build failed"]}, no_input=True)
        return chk.finish(proof)
    args = ["--seed", seed, "--cases", ncases, "--tier", tier]
    if only:
        args += ["--only", only]
    tag = gv.os.environ.get("GV_OUT_TAG", "")
    rc, so, se, cases, dt = gv.run_harness(binp, args, gv.os.path.join(gv.BUILD, "out", "c20%s.jsonl" % tag), timeout=2400)
    if rc != 0:
        chk.violation("crash", {"what": "the harness crashed", "stderr": se, "broken": ["harness exit %d" % rc]}, no_input=True)
        return chk.finish(proof)
    # (model == implementation, property oracle on the implementation's observation) — one Coq pair term per
    # scheduler-driven case, so that programs, schedule and observation are parsed once
    ok, out = gv.coq_make([gv.vo_target(r) for r in REQ_RUN])
    idx = [i for i, c in enumerate(cases) if c.get("msg", "").startswith("ocoq=")]
    if ok:
        vals = gv.coq_eval(PROP + "_pairs", REQ_RUN, [cases[i]["msg"][5:] for i in idx])
        for i, v in zip(idx, vals):
            m = gv.re.match(r"^\((true|false), (true|false)\)$", v)
            corr, orc = (m.group(1), m.group(2)) if m else ("false", "false")
            cases[i]["coq_term"] = cases[i]["msg"][5:]
            cases[i]["coq"] = corr
            cases[i]["oracle"] = "ok" if orc == "true" else "fail"
            cases[i]["msg"] = "Coq (model == implementation, property on the observation) = " + v
            cases[i].setdefault("tags", []).append("oracle:" + cases[i]["oracle"])
    else:
        for i in idx:
            cases[i]["coq"] = "false"
    gv.standard_flow(chk, REQ_RUN, cases, proof, PROP)
    info = [c for c in cases if c["k"] == "info"]
    chk.coverage["rule"] = (
        "scheduler-driven: corpus (the schedules of the *_refuted theorems) + ALL schedules of 2 threads x 1 operation for every pair of "
        "operation templates on shared entities (LPG 6 templates quick / 16 thorough, RDF 6, TM 4 programs, buffer 7, WAL) + random schedules of "
        "2-3 threads x 1-3 operations (<= 7 operations; sticky/fine interleavings) + thorough: all schedules of sampled 2x2 programs; per schedule: "
        "yield site of every step, per-thread outputs, post-quiescence observation (get_node/labels/nodes_by_label/get_edge/edges_from/edges_to/"
        "id counters; primary set and three RDF indexes as bags; epochs/tx ids; allocated() after every step + region counters; recovered log) "
        "compared with the model on the same schedule; oracle = cross-checks and equality with some sequential order, evaluated in Coq. "
        "set_node_property (indexed key) and rotating-log programs likewise; hook-free stress phases (OS scheduler): create-only ids/visibility, begin/commit epochs, allocate/drop limit and accounting, "
        "log completeness, disjoint-entity consistency, first use of fresh labels by several threads at once (label registry / label index), "
        "pairs of conflicting transactions committed at the same moment on a manager with 20k ballast records (exactly one commits), deadlock searches.  non-trivial = two threads touch a common entity; "
        "distinct = distinct (kind, programs, schedule)")
    sched = [c for c in cases if c["k"].endswith("-sched")]
    chk.coverage["schedules_run"] = len(sched)
    chk.coverage["run_info"] = info[0]["impl"] if info else "?"
    chk.coverage["samples"] = [{"kind": c["k"], "input": c["in"][:300], "impl": c["impl"][:400]} for c in cases[0:3] + cases[200:203]]
    chk.coverage["trusted_base"] = TRUSTED
    chk.coverage["harness_seconds"] = round(dt, 1)
    chk.assumptions = [
        "atomicity of the code between two yield points (see trusted_base): validated only by the hook-free stress phases",
        "the yield points of 45dda10 are at every boundary between critical sections of the modelled operations (checked by reading; an "
        "operation that gained a new critical section without a yield point would be modelled too coarsely but still correspond)",
        "u64 wrap-around of the id/epoch counters and usize overflow of allocation sizes are not exercised",
        "readers (get_node, nodes_by_label, scans) are observed only after quiescence; transient states seen by concurrent readers are not part of the property as stated",
    ]
    return chk.finish(proof)


def run(tier, seed):
    return flow(tier, seed)


def replay(path, tier, seed):
    """Prints the replay file; a scheduler case is re-run (same programs, same schedule) through the implementation and the model."""
    path = gv.os.path.abspath(path)
    print(open(path).read())
    data = gv.json.load(open(path))
    inp = str(data.get("input") or "")
    if data.get("no_failing_input_found") or not inp or "sched=" not in inp:
        return flow(tier, seed)
    ok, out, binp = gv.cargo_build("c20")
    if not ok:
        print("harness build failed:\n" + out[-2000:])
        return 1
    rc, so, se, cases, dt = gv.run_harness(binp, ["--seed", seed, "--tier", tier, "--replay", path],
                                           gv.os.path.join(gv.BUILD, "out", "c20_replay.jsonl"))
    cases = [c for c in cases if c["k"] != "info"]
    if rc != 0 or not cases:
        print("replay: harness produced no case (rc=%d): %s" % (rc, se))
        return flow(tier, seed)
    c = cases[0]
    print("input          :", c["in"])
    print("implementation :", c["impl"])
    if not c.get("msg", "").startswith("ocoq="):
        print("observation    :", c.get("msg"))
        return 1
    gv.coq_make([gv.vo_target(r) for r in REQ_RUN])
    pair, model = gv.coq_eval(PROP + "_replay", REQ_RUN, [c["msg"][5:], c["show"]])
    print("model          :", model)
    print("(model == implementation, property on the implementation's observation) =", pair)
    bad = pair != "(true, true)"
    if bad and c.get("kcoq"):
        k = gv.coq_eval(PROP + "_replay_k", REQ_RUN, [c["kcoq"]])[0]
        print("listed finding class %s holds of the programs: %s" % (c.get("kid"), k))
        if pair == "(true, false)" and k == "true":
            bad = False
    return 1 if bad else 0
