"""C17 — parallel, push-based and spilling execution equal simple sequential execution (DESIGN §8 C17)."""
import gv

PROP = "C17"
REQ_PROPS = ["GV.Props.Props_C17"]
REQ_RUN = ["GV.Par.Run"]
BINS = ["c17"]

TRUSTED = [
    "Coq 8.16.1 kernel (coqc; vm_compute used to run the model; no native_compute)",
    "hand-written model coq/Par/{Merge,Morsel,Accum,Push,ExtSort,Sched,Rows}.v of execution/parallel/{merge,morsel,pipeline,source}.rs, "
    "execution/pipeline.rs, operators/push/{filter,limit,distinct,sort,project}.rs, spill/{external_sort,partition,manager,file}.rs and of "
    "std::collections::BinaryHeap (push/pop/sift_up/sift_down_to_bottom), tied to the code by the differential run of this check",
    "harness/src/bin/c17.rs: generators, printing of observations as Coq terms, the single-threaded baselines (stable sort, filter, "
    "first-occurrence dedup, last-write-wins map), the verbatim copies of the private hash functions hash_value/hash_row/hash_key "
    "(validated against PartitionedState::partition_for on every key), lib/gv.py",
    "thread schedules of the real ParallelPipeline are chosen by the OS (runtime, not modelled); the harness additionally plays "
    "arbitrary schedules itself with the real operators, sources and merge functions, and those are compared with the model exactly",
]


def run(tier, seed):
    chk = gv.Check(PROP, tier, seed, level="proof")
    if not chk.known:
        # until the integrator has assembled known-findings.json from known.d/, read the fragment itself
        import json
        frag = gv.os.path.join(gv.ROOT, "known.d", "C17.json")
        if gv.os.path.exists(frag):
            chk.known = [f for f in json.load(open(frag))["findings"] if f.get("property") == PROP]
    proof = gv.proof_status(PROP, REQ_PROPS)
    ncases = 2000 if tier == "quick" else 16000
    ok, out, binp = gv.cargo_build("c17")
    if not ok:
        chk.violation("build", {"what": "the harness no longer builds against /repo's working tree", "log": out[-3000:],
                                "broken": ["correspondence C17: harness build failed"]}, no_input=True)
        return chk.finish(proof)
    rc, so, se, cases, dt = gv.run_harness(binp, ["--seed", seed, "--cases", ncases, "--tier", tier],
                                           gv.os.path.join(gv.BUILD, "out", "c17_dev.jsonl"), timeout=3000)
    if rc != 0:
        chk.violation("crash", {"what": "the harness crashed (a panic outside the expected ones, or a hang of the code under test)",
                                "stderr": se, "broken": ["harness exit %d" % rc]}, no_input=True)
        return chk.finish(proof)
    gv.standard_flow(chk, REQ_RUN, cases, proof, "C17")
    scratch = gv.os.path.join(gv.BUILD, "scratch", "c17" + ("-" + gv.OUT_TAG if getattr(gv, "OUT_TAG", "") else ""))
    left = []
    for d, _, fs in gv.os.walk(scratch):
        left += [gv.os.path.join(d, f) for f in fs if f.endswith(".spill")]
    chk.coverage["spill_dir_listing_after_run"] = {"dir": scratch, "spill_files_left": len(left)}
    chk.coverage["rule"] = (
        "generated tables (sizes 0, 1, 2, <=50 for exact sequence comparisons; 0,1,1023..1025,2047..2049,16385,65537 rows for the real "
        "ParallelPipeline; key column of kind Bool/Int64/Float64/String with duplicates and NULLs, unique id column, second key column) "
        "through merge_sorted_runs/merge_sorted_chunks/rows_to_chunks/concat_parallel_results/merge_distinct_results, generate_morsels "
        "(sizes 0, 1, below MIN_MORSEL_SIZE, around the input size, usize::MAX), MergeableAccumulator over random merge trees, every "
        "push operator chunk by chunk over random chunkings (with empty chunks) against its pull twin and the list specification, "
        "the same operators fed with chunks that carry a selection vector (prefix, suffix, random subsets, empty; 1-3 chunks) against "
        "the model, the specification on the selected rows and the pull twins, "
        "Pipeline chains of 1-3 operators, harness-played schedules (1..16 workers, any assignment and publication order), the real "
        "ParallelPipeline (1..16 workers, all four morsel sizes, chunk sizes 1..5000, vector, chunk and triple-scan sources, chains with an inner sort), ExternalSort / "
        "SpillableSortPushOperator from 'every row its own run' to 'never spills', PartitionedState with random spills, GROUP BY on 0-2 columns "
        "with COUNT(*)/COUNT/SUM/MIN/MAX/AVG/FIRST in memory and spilling (thresholds 0..1000) against the model and each other; "
        "a case is non-trivial when the input has duplicate keys and at least 2 runs/morsels/chunks/workers; distinct = distinct (kind,input)")
    chk.coverage["samples"] = [{"kind": c["k"], "input": c["in"][:300], "impl": c["impl"][:300]} for c in cases[40:2200:360]]
    chk.coverage["trusted_base"] = TRUSTED
    chk.assumptions = [
        "sort keys are same-typed per column (the comparators answer Equal across kinds and are then no preorder); NaN, -0.0, non-scalar values not modelled",
        "f64 sums of the accumulators are exact on the generated inputs (integers, partial sums below 2^53); float rounding under re-association is out of scope",
        "chunks hold at most 65535 rows (above that: open finding C17-K3); selection vectors on input chunks are ascending and in range (as the pull operators produce them)",
        "the 64-bit SipHash values used by DISTINCT / GROUP BY / merge_distinct_results are inputs of the model; their injectivity on the "
        "values of a run is checked by the harness on every case (a collision makes the case 'na'; NULL and FALSE collided before b5cd4ea: C17-K8, fixed)",
        "OS thread schedules of ParallelPipeline::execute are not controlled (quick and thorough); results are compared as bags / after the real merge",
        "the serializer hop of the spill files is the identity on the modelled values (observed by the run; proved for the codec in C16)",
    ]
    return chk.finish(proof)


def replay(path, tier, seed):
    print(open(path).read())
    return run(tier, seed)
