"""C03 — first committer wins (DESIGN §8 C03).  Shares the harness binary `c03` and the
Coq area `Tm` with C04 (checks/c04.py imports the flow from here)."""
import gv

REQ_PROPS = ["GV.Props.Props_C03"]
REQ_RUN = ["GV.Tm.Run"]
BINS = ["c03"]

# smaller evaluation shards than the default: the terms are long op lists with read-backs and
# the machine has many cores (same function, same results; only the batching differs)
_coq_eval = gv.coq_eval


def _coq_eval_small(name, requires, exprs, shard=90):
    return _coq_eval(name, requires, exprs, shard=shard)

TRUSTED = [
    "Coq 8.16.1 kernel (coqc; vm_compute used to run the model; no native_compute)",
    "hand-written model coq/Tm/Model.v of crates/grafeo-engine/src/transaction/manager.rs (begin_with_isolation, record_write, "
    "record_read, commit, abort, abort_all_active, gc and the read-only observers), tied to the code by the differential run of this check",
    "coq/Tm/Spec.v: the definition of a run's history, of the abstract commit rule and of the abstract multi-version data layer "
    "(the statements are about these definitions)",
    "harness/src/bin/c03.rs (generators, printing of observations as Coq terms, the native transliteration of the specification "
    "used for the exhaustive small-scope sweep), checks/c03.py, lib/gv.py",
    "Commit is treated as atomic: commit() holds transactions.write() from validation to publication (single-threaded runs only)",
]


def tm_flow(prop, tier, seed, rule):
    gv.coq_eval = _coq_eval_small
    chk = gv.Check(prop, tier, seed, level="proof")
    proof = gv.proof_status(prop, ["GV.Props.Props_%s" % prop])
    ncases = gv.scaled(prop, tier, 1000, 12000, chk)
    ok, out, binp = gv.cargo_build("c03")
    if not ok:
        chk.violation("build", {"what": "the harness no longer builds against /repo's working tree", "log": out[-3000:],
                                "broken": ["correspondence %s: harness build failed" % prop]}, no_input=True)
        return chk.finish(proof)
    rc, so, se, cases, dt = gv.run_harness(binp, ["--prop", prop, "--seed", seed, "--cases", ncases, "--tier", tier],
                                           gv.os.path.join(gv.BUILD, "out", "%s.jsonl" % prop.lower()), timeout=2400)
    if rc != 0:
        chk.violation("crash", {"what": "the harness crashed", "stderr": se, "broken": ["harness exit %d" % rc]}, no_input=True)
        return chk.finish(proof)
    # correspondence and property oracle are Coq terms over the implementation's answers; the harness
    # prints both as one pair term per case (msg = "ocoq=<term>") so that each op list is parsed once:
    #   (model == implementation, oracle(implementation answers))
    # `coq` is then replaced by the evaluated first component (the full term stays in `coq_term`).
    ok, out = gv.coq_make([gv.vo_target(r) for r in REQ_RUN])
    idx = [i for i, c in enumerate(cases) if c.get("msg", "").startswith("ocoq=")]
    if ok:
        vals = gv.coq_eval(prop + "_pairs", REQ_RUN, [cases[i]["msg"][5:] for i in idx])
        for i, v in zip(idx, vals):
            m = gv.re.match(r"^\((true|false), (true|false)\)$", v)
            corr, orc = (m.group(1), m.group(2)) if m else ("false", "false")
            cases[i]["coq_term"] = cases[i]["coq"]
            cases[i]["coq"] = corr
            cases[i]["oracle"] = "ok" if orc == "true" else "fail"
            cases[i]["msg"] = "Coq (correspondence, oracle) = " + v
    gv.standard_flow(chk, REQ_RUN, cases, proof, prop)
    chk.coverage["rule"] = rule
    chk.coverage["oracle_terms_evaluated_in_coq"] = len(idx)
    ex = [c for c in cases if c["k"] == "exhaustive-summary"]
    if ex:
        chk.coverage["exhaustive_small_scope_support_only"] = {"scope": ex[0]["in"], "result": ex[0]["impl"], "note": ex[0].get("msg", "")}
    chk.coverage["samples"] = [{"kind": c["k"], "input": c["in"][:300], "impl": c["impl"][:300]} for c in cases[9:12] + cases[40:43]]
    chk.coverage["trusted_base"] = TRUSTED
    chk.assumptions = [
        "single-threaded histories: commit() is one critical section under transactions.write(); concurrent commits from several "
        "threads are not exercised here (C20's scheduler hook is the place for that)",
        "u64 wrap-around of next_tx_id/current_epoch (2^64 begins/commits) and mark_committed (recovery) are not modelled",
        "session level: what reaches the manager from a session is begin/commit/abort only (checked by chk_session on every run)",
    ]
    return chk.finish(proof)


def run(tier, seed):
    return tm_flow("C03", tier, seed,
                   "operation sequences over 2-6 transactions x 1-4 entities (NodeId/EdgeId, overlapping numbers), all three isolation levels, "
                   "gc/abort_all at random points, pinned long-lived readers, retries after refusal, ops on unknown/finished ids; every answer and "
                   "read-backs (state/start_epoch/isolation/write set/current_epoch/active_count/min_active_epoch) at 2-3 points compared with the model; "
                   "the same ops without Gc re-run for gc-transparency; plus scripted and random two/three-session GQL histories. "
                   "non-trivial = at least two transactions wrote a common entity and at least one commit; distinct = distinct (kind, op sequence)")


def tm_replay(prop, path, tier, seed):
    """Re-runs one TM-level trace (the "input" of a replay file) through implementation, model and
    oracle and prints the three.  Session-level and no-failing-input replays re-run the whole check."""
    print(open(path).read())
    data = gv.json.load(open(path))
    if not data.get("input") or str(data.get("kind", "")).startswith("session") or data.get("no_failing_input_found"):
        return tm_flow(prop, tier, seed, "replay of a non-trace file: full run")
    ok, out, binp = gv.cargo_build("c03")
    if not ok:
        print("harness build failed:\n" + out[-2000:])
        return 1
    rc, so, se, cases, dt = gv.run_harness(binp, ["--prop", prop, "--seed", seed, "--replay", path],
                                           gv.os.path.join(gv.BUILD, "out", "%s_replay.jsonl" % prop.lower()))
    if rc != 0 or not cases:
        print("replay: harness produced no case (rc=%d): %s" % (rc, se))
        return tm_flow(prop, tier, seed, "replay fallback: full run")
    c = cases[0]
    gv.coq_make([gv.vo_target(r) for r in REQ_RUN])
    pair, model = gv.coq_eval(prop + "_replay", REQ_RUN, [c["msg"][5:], c["show"]])
    print("input          :", c["in"])
    print("implementation :", c["impl"])
    print("model answers  :", model)
    print("(model == implementation, property oracle on the implementation's answers) =", pair)
    bad = pair != "(true, true)"
    if bad and c.get("kcoq"):
        k = gv.coq_eval(prop + "_replay_k", REQ_RUN, [c["kcoq"]])[0]
        print("listed finding class %s holds: %s" % (c.get("kid"), k))
        if pair == "(true, false)" and k == "true":
            bad = False
    return 1 if bad else 0


def replay(path, tier, seed):
    return tm_replay("C03", path, tier, seed)
