"""C15 — every compression codec is lossless (DESIGN §8 C15)."""
import gv

PROP = "C15"
REQ_PROPS = ["GV.Props.Props_C15"]
REQ_RUN = ["GV.Codec.Run2"]

TRUSTED = [
    "Coq 8.16.1 kernel (coqc; vm_compute used to run the model; no native_compute)",
    "hand-written model coq/Codec/Model.v of storage/{delta,bitpack,runlength}.rs, tied to the code by the differential run of this check",
    "harness/src/bin/c15.rs (generators, printing of observations as Coq terms), lib/gv.py",
]


def run(tier, seed):
    chk = gv.Check(PROP, tier, seed, level="proof")
    proof = gv.proof_status(PROP, REQ_PROPS)
    ncases = gv.scaled(PROP, tier, 2100, 30000, chk)
    cases = []
    profiles = ["dev"] if tier == "quick" else ["dev", "relarith"]
    for prof in profiles:
        ok, out, binp = gv.cargo_build("c15", profile=prof)
        if not ok:
            chk.violation("build", {"what": "the harness no longer builds against /repo's working tree", "log": out[-3000:],
                                    "broken": ["correspondence C15: harness build failed"]}, no_input=True)
            return chk.finish(proof)
        rc, so, se, cs, dt = gv.run_harness(binp, ["--seed", seed, "--cases", ncases, "--tier", tier],
                                            gv.os.path.join(gv.BUILD, "out", "c15_%s.jsonl" % prof))
        if rc != 0:
            chk.violation("crash", {"what": "the harness crashed", "stderr": se, "broken": ["harness exit %d" % rc]}, no_input=True)
            return chk.finish(proof)
        for c in cs:
            c["profile"] = prof
        cases += cs
    gv.standard_flow(chk, REQ_RUN, cases, proof, "C15")
    chk.coverage["rule"] = ("generated integer sequences (streams: all-equal, increasing, bounded width 1..64, sorted, runs, boundary values, "
                            "random; lengths 0,1,2,63..65,127..129,<40) through every codec; a case is non-trivial when the sequence has >=2 "
                            "different elements or contains a boundary value; distinct = distinct (kind,input)")
    chk.coverage["samples"] = [{"kind": c["k"], "input": c["in"][:200], "impl": c["impl"][:200]} for c in cases[8:14]]
    chk.coverage["trusted_base"] = TRUSTED
    chk.coverage["profiles"] = profiles
    chk.assumptions = ["the 64-bit machine arithmetic of Rust is what Base/Bits.v says (wrap64/sint64); validated by the run",
                       "succinct structures, dictionary, bit vectors, codec selector and compressed columns: see level_note"]
    return chk.finish(proof)


def replay(path, tier, seed):
    print(open(path).read())
    return run(tier, seed)
