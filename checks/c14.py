"""C14 — every access path to the property graph tells the same story (DESIGN §8 C14)."""
import concurrent.futures
import json
import os
import shutil

import gv

PROP = "C14"
REQ_PROPS = ["GV.Props.Props_C14"]
REQ_RUN = ["GV.Lpg.Run"]
BINS = ["c14"]

TRUSTED = [
    "Coq 8.16.1 kernel (coqc; vm_compute used to run the model; no native_compute)",
    "hand-written model coq/Lpg/{Value,Model}.v of graph/lpg/{store,property}.rs, index/{adjacency,zone_map}.rs and GrafeoDB::validate, "
    "tied to the code by the differential run of this check (every return value and every observation of every trace)",
    "coq/Codec/Model.v (C15) for the compressed adjacency chunks",
    "harness/src/bin/c14.rs (generators, observation of the accessors, printing of observations as Coq terms, the oracle cross-checks), "
    "lib/gv.py, checks/c14.py",
    "id lists longer than 12 entries are compared through (length, 61-bit polynomial hash of the canonical list) computed by the same "
    "function on both sides",
]

KNOWN_FRAGMENT = os.path.join(gv.ROOT, "known.d", "C14.json")


def _own_findings():
    """The integrator assembles known-findings.json from known.d/*.json; until then (and so that the
    check does not depend on the assembly step) the fragment of this property is read directly."""
    try:
        return [f for f in json.load(open(KNOWN_FRAGMENT)).get("findings", []) if f.get("property") == PROP]
    except (OSError, ValueError):
        return []


def _install_sharding():
    """gv.standard_flow evaluates all Coq terms of a run through gv.coq_eval, which cuts the list into
    consecutive shards of 250 terms.  A C14 term is a whole trace (up to hundreds of operations and
    thousands of observations) and the sizes differ by a factor of 1000, so the terms are instead
    spread over at most NCPU coqc processes (one per ~250 kB of term text) balanced by size
    (longest-processing-time first); every process pays the load time of the libraries once.
    Same files, same evaluation (gv._eval_shard)."""
    orig = gv.coq_eval
    if getattr(orig, "_c14", False):
        return

    def coq_eval(name, requires, exprs, shard=250):
        if not exprs:
            return []
        tag = getattr(gv, "OUT_TAG", "")
        d = os.path.join(gv.BUILD, "cases", (tag + "_" if tag else "") + name)
        shutil.rmtree(d, ignore_errors=True)
        os.makedirs(d)
        # one process per ~250 kB of term text (every process pays a few seconds of library loading)
        total = sum(len(e) for e in exprs)
        nb = max(1, min(gv.NCPU, len(exprs), -(-total // 250000)))
        bins = [[0, []] for _ in range(nb)]
        for i in sorted(range(len(exprs)), key=lambda i: -len(exprs[i])):
            b = min(bins, key=lambda b: b[0])
            b[0] += len(exprs[i]) + 2000
            b[1].append(i)
        jobs = [(os.path.join(d, "S%04d.v" % k), requires, [exprs[i] for i in b[1]]) for k, b in enumerate(bins) if b[1]]
        idx = [b[1] for b in bins if b[1]]
        out = [None] * len(exprs)
        with concurrent.futures.ThreadPoolExecutor(max_workers=gv.NCPU) as ex:
            for (vals, raw), job, ix in zip(ex.map(gv._eval_shard, jobs), jobs, idx):
                if vals is None or len(vals) != len(job[2]):
                    raise RuntimeError("coqc failed on %s:\n%s" % (job[0], (raw or "")[-3000:]))
                for i, v in zip(ix, vals):
                    out[i] = v
        return out

    coq_eval._c14 = True
    gv.coq_eval = coq_eval


def run(tier, seed):
    _install_sharding()
    chk = gv.Check(PROP, tier, seed, level="proof")
    have = {f["id"] for f in chk.known}
    chk.known = chk.known + [f for f in _own_findings() if f["id"] not in have]
    proof = gv.proof_status(PROP, REQ_PROPS)
    # quick: 110 traces on the pinned tree, up to 220 when /repo has moved; thorough: 400
    ncases = gv.scaled(PROP, tier, 110, 220, chk) if tier == "quick" else 400
    ok, out, binp = gv.cargo_build("c14")
    if not ok:
        chk.violation("build", {"what": "the harness no longer builds against /repo's working tree", "log": out[-3000:],
                                "broken": ["correspondence C14: harness build failed"]}, no_input=True)
        return chk.finish(proof)
    rc, so, se, cases, dt = gv.run_harness(binp, ["--seed", seed, "--cases", ncases, "--tier", tier],
                                           os.path.join(gv.BUILD, "out", "c14.jsonl"), timeout=3000)
    if rc != 0:
        chk.violation("crash", {"what": "the harness crashed", "stderr": se, "broken": ["harness exit %d" % rc]}, no_input=True)
        return chk.finish(proof)
    gv.standard_flow(chk, REQ_RUN, cases, proof, "C14")
    traces = [c for c in cases if c["k"].startswith("trace:")]
    chk.coverage["rule"] = (
        "one case = one operation sequence (1-600 ops over CreateNode/DeleteNode/DeleteNodeEdges/CreateEdge/DeleteEdge/Set|Remove "
        "Node|Edge Prop/AddLabel/RemoveLabel/CreateIndex/DropIndex/Compact/CompactIfNeeded/FreezeAll/RefreshStats/NewEpoch) run against a "
        "real LpgStore with backward adjacency, without it, or a GrafeoDB through its non-transactional wrappers (whose delete_node detaches); streams: corpus "
        "(finding witnesses, chunk-boundary histories), mixed (state-aware, 1/3 with ids that do not exist), hub (>=300 edges on one "
        "source node with compaction at every threshold, deletes in the middle, self-loops, parallel edges, destination 0); after every "
        "op (quick: every 8th/16th/32nd op of histories longer than 12/60/300, after every RefreshStats, and at the end) every accessor of observe_at is "
        "compared with the model and cross-checked against the other access paths (quick: the observations in the middle of a trace longer "
        "than 60 ops sample fewer nodes, edges and probe values; the final one and those after a refresh are full); a trace is "
        "non-trivial when it contains a delete and "
        "label, edge and property operations; distinct = distinct (mode, op sequence); oracle:* cases are the cross-check failures, "
        "classified by the finding class predicates of coq/Lpg/Classes.v evaluated on the history")
    chk.coverage["samples"] = [{"kind": c["k"], "input": c["in"][:400], "impl": c["impl"][:200]} for c in traces[28:33]]
    chk.coverage["trusted_base"] = TRUSTED
    chk.coverage["traces"] = len(traces)
    chk.coverage["operations_executed"] = sum(int(c["impl"].split(" ops")[0]) for c in traces)
    chk.coverage["observations_compared"] = sum(int(c["impl"].split(", ")[1].split(" items")[0]) for c in traces)
    chk.coverage["harness_seconds"] = round(dt, 1)
    chk.assumptions = [
        "LpgStore.current_epoch is never advanced by the store itself (DESIGN §0(b), owned by C01): the store is driven directly / through "
        "GrafeoDB's non-transactional wrappers, not through sessions; NewEpoch calls the public LpgStore::new_epoch",
        "LpgStore never compacts its adjacency lists: chunk/compaction/compression thresholds are crossed on two ChunkedAdjacency objects "
        "that receive the calls the store makes on its own lists (add_edge / mark_deleted, read off store.rs) plus the compaction calls",
        "hash-map iteration order is not modelled: everything that comes out of a hash map is compared sorted",
        "float arithmetic is not involved; `i64 as f64` and f64 comparison are modelled exactly on bit patterns / exact integer values and "
        "validated by the run on the boundary values (2^53, 2^53+-1, i64::MIN/MAX, NaN payloads, +-0, infinities, subnormals)",
    ]
    return chk.finish(proof)


def replay(path, tier, seed):
    print(open(path).read())
    return run(tier, seed)
