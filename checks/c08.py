"""C08 — read queries return the answer the graph-pattern semantics defines (DESIGN §8 C08).

Shared with C10 (checks/c10.py imports `decide` from here): the harness binary `c08` serves both
properties (`--prop C08|C10`)."""
import json
import os
import re

import gv

PROP = "C08"
REQ_PROPS = ["GV.Props.Props_C08"]
REQ_RUN = ["GV.Query.RunPat", "GV.Query.RunShape"]
BINS = ["c08"]
# tools/seedtest.sh runs a check against a scratch copy of /repo while the normal check may run too:
# keep the scratch files of the two apart
TAG = os.environ.get("GV_OUT_TAG", "")

TRUSTED = [
    "Coq 8.16.1 kernel (coqc; vm_compute runs the models; no native_compute)",
    "hand-written models coq/Query/Pattern.v (logical plan semantics sem_ops, declarative bindings/clauses) and coq/Query/Phys.v "
    "(planner paths), tied to the code by the differential run of this check on the plan each front end really produced",
    "the four parsers/translators are NOT modelled: their output plan is dumped (translate -> bind -> optimize, the calls of session.rs) and fed to the model",
    "harness/src/bin/c08.rs (generators, renderings, plan/row printers), checks/c08.py, lib/gv.py",
]


def use_local_known(chk, prop):
    """known-findings.json is assembled by the integrator from known.d/*.json; until then (and to stay
    in step with this work package) the fragment of this property is authoritative."""
    p = os.path.join(gv.ROOT, "known.d", prop + ".json")
    if os.path.exists(p):
        mine = json.load(open(p)).get("findings", [])
        ids = {f["id"] for f in mine}
        chk.known = [f for f in chk.known if f["id"] not in ids] + [f for f in mine if f.get("property") == prop]


def parse_bool_list(s):
    return re.findall(r"true|false", s)


def decide(chk, cases):
    """Evaluates the Coq oracle terms (`orc`) and the finding-class lists (`kall`) of the cases and
    fills in `oracle`, `kid`, `kcoq` as gv.standard_flow expects them."""
    ok, out = gv.coq_make([gv.vo_target(r) for r in REQ_RUN])
    if not ok:
        return False, out
    oi = [i for i, c in enumerate(cases) if c.get("orc")]
    vals = gv.coq_eval(chk.prop + TAG + "_orc", REQ_RUN, [cases[i]["orc"] for i in oi], shard=shape_shard(len(oi)))
    fails = []
    for i, v in zip(oi, vals):
        cases[i]["oracle"] = "ok" if v == "true" else "fail"
        if v != "true":
            fails.append(i)
    # how many executed GQL / Cypher plans are literally the plan shape the theorems are about
    si = [i for i, c in enumerate(cases) if c.get("shape")]
    svals = gv.coq_eval(chk.prop + TAG + "_shape", REQ_RUN, [cases[i]["shape"] for i in si], shard=shape_shard(len(si)))
    for i, v in zip(si, svals):
        cases[i].setdefault("tags", []).append("plan:theorem-shape" if v == "true" else "plan:other-shape")
        cases[i]["shape_ok"] = (v == "true")
    open_ids = chk.open_finding_ids()
    ki = [i for i in fails if cases[i].get("kall")]
    kvals = gv.coq_eval(chk.prop + TAG + "_kall", REQ_RUN, [cases[i]["kall"] for i in ki], shard=shape_shard(len(ki)))
    for i, v in zip(ki, kvals):
        bs = parse_bool_list(v)
        ids = cases[i]["kids"]
        hit = [k for k, b in zip(ids, bs) if b == "true"]
        cases[i]["kclasses"] = sorted(set(hit))
        pick = [(j, k) for j, (k, b) in enumerate(zip(ids, bs)) if b == "true" and k in open_ids]
        # a GQL / Cypher plan that is NOT the shape the translators are known to build (gql_plan_of /
        # cypher_plan_of, defects K5-K7, K9, K12 included) means the translator itself deviated: then no
        # class may excuse the wrong answer, except K1 (GQL drops the star of an unbounded pattern, which
        # the shape deliberately does not mirror)
        if cases[i].get("shape_ok") is False:
            pick = [(j, k) for j, k in pick if k == "C08-K1"]
        if pick:
            idx, k = pick[0]
            cases[i]["kid"] = k
            # re-evaluated by standard_flow: the chosen class holds AND, when the executed plan is inside
            # the modelled fragment, the model (which transcribes the listed defects and nothing else)
            # reproduces exactly what the engine returned -- a wrong answer the model does not predict
            # is never excused by a class
            cases[i]["kcoq"] = "nth %d (%s) false" % (idx, cases[i]["kall"])
            if cases[i].get("coq"):
                cases[i]["kcoq"] = "andb (%s) (%s)" % (cases[i]["kcoq"], cases[i]["coq"])
    return True, ""


def shape_shard(n):
    return max(20, n // (2 * gv.NCPU) + 1)


def samples(cases, n=6):
    out = []
    seen = set()
    for c in cases:
        if c.get("nt") and c["k"] not in seen and c.get("coq"):
            seen.add(c["k"])
            out.append({"kind": c["k"], "input": c["in"][:400], "impl": c["impl"][:300]})
        if len(out) >= n:
            break
    return out


def run_prop(prop, req_props, tier, seed, ncases, rule, assumptions):
    chk = gv.Check(prop, tier, seed, level="proof")
    use_local_known(chk, prop)
    proof = gv.proof_status(prop, req_props)
    ok, out, binp = gv.cargo_build("c08")
    if not ok:
        chk.violation("build", {"what": "the harness no longer builds against /repo's working tree", "log": out[-3000:],
                                "broken": ["correspondence %s: harness build failed" % prop]}, no_input=True)
        return chk.finish(proof)
    rc, so, se, cases, dt = gv.run_harness(binp, ["--seed", seed, "--cases", ncases, "--tier", tier, "--prop", prop],
                                           os.path.join(gv.BUILD, "out", "%s%s.jsonl" % (prop.lower(), TAG)))
    if rc != 0:
        chk.violation("crash", {"what": "the harness crashed", "stderr": se, "broken": ["harness exit %d" % rc]}, no_input=True)
        return chk.finish(proof)
    ok, log = decide(chk, cases)
    if not ok:
        chk.violation("model", {"what": "the executable model no longer compiles", "broken": ["coq build of %s failed" % REQ_RUN],
                                "log": log[-3000:]}, no_input=True)
        return chk.finish(proof)
    # gv.standard_flow evaluates 250 terms per coqc; use all cores instead
    orig_eval = gv.coq_eval
    gv.coq_eval = lambda name, req, exprs, shard=250: orig_eval(name + TAG, req, exprs, shard=shape_shard(len(exprs)))
    try:
        gv.standard_flow(chk, REQ_RUN, cases, proof, prop)
    finally:
        gv.coq_eval = orig_eval
    # a failing case usually lies in several classes at once; report every open class that was hit by a
    # case the flow accepted as listed (standard_flow counts only the one it was decided on)
    open_ids = chk.open_finding_ids()
    if not chk.violations:
        for c in cases:
            if c.get("oracle") == "fail" and c.get("kid"):
                for k in c.get("kclasses", []):
                    if k in open_ids and k != c["kid"]:
                        chk.known_hits[k] = chk.known_hits.get(k, 0) + 1
    chk.coverage["rule"] = rule
    chk.coverage["samples"] = samples(cases)
    chk.coverage["trusted_base"] = TRUSTED
    chk.coverage["harness_s"] = round(dt, 1)
    cls = {}
    for c in cases:
        for k in c.get("kclasses", []):
            cls[k] = cls.get(k, 0) + 1
    chk.coverage["failing_cases_per_class"] = cls
    chk.assumptions = assumptions
    return chk.finish(proof)


RULE = ("generated graphs (0-12 nodes, 0-30 edges; self-loops, parallel edges, isolated nodes, missing and heterogeneous "
        "properties, edge types R/r differing only in case) built through GrafeoDB::create_node/set_node_property/create_edge x "
        "generated abstract core queries (0-3 hops, directions, labels incl. multi-label, types, variable length, WHERE trees, "
        "plain/DISTINCT/aggregate returns, ORDER BY on a total key, SKIP/LIMIT) rendered in GQL, Cypher, Gremlin, GraphQL where "
        "expressible; per execution: model of the dumped optimized plan == engine rows (correspondence), engine rows == declarative "
        "answer computed in Coq (oracle; multisets, sequences under a total ORDER BY); a case is non-trivial when the query has "
        ">=1 expand and a predicate and the graph has a self-loop or a parallel edge; distinct = distinct (kind,input)")
ASSUME = [
    "adjacency lists enumerate a node's edges in insertion order and scans return ascending ids (validated by the run: sequences are compared under SKIP/LIMIT)",
    "every operator sees its whole input in one chunk (<= 2048 rows); chunk boundaries are C11's subject",
    "floats are exact dyadic rationals (generated: multiples of 0.5); avg is compared with relative tolerance 2^-40",
    "expression evaluation beyond comparisons/AND/OR/NOT/IS NULL, value ordering and aggregate arithmetic are C11/C16's subject; the model copies the code's functions",
]


def run(tier, seed):
    return run_prop(PROP, REQ_PROPS, tier, seed, 1000 if tier == "quick" else 8000, RULE, ASSUME)


def replay(path, tier, seed):
    print(open(path).read())
    return run(tier, seed)
