"""C04 — Serializable transactions admit only serializable outcomes (DESIGN §8 C04).
Same harness binary and Coq area as C03; the generators are read-heavier and Serializable-heavier
and the oracle is the dependency-graph / serial-replay one."""
from checks import c03

REQ_PROPS = ["GV.Props.Props_C04"]
REQ_RUN = ["GV.Tm.Run"]
BINS = ["c03"]


def run(tier, seed):
    return c03.tm_flow("C04", tier, seed,
                       "as C03 with more reads and mostly-Serializable histories (stale readers, write skew, lost update, read-only "
                       "transactions, mixed levels); oracle on the implementation's answers: SerializationFailure refusals justified, no stale "
                       "reader accepted, non-overlapping never refused, and for all-Serializable histories every ww/wr/rw dependency forward "
                       "in commit order + Kahn acyclicity + reads equal the serial replay; plus two/three-session GQL histories. "
                       "non-trivial = some transaction read an entity that an overlapping, committed transaction wrote")


def replay(path, tier, seed):
    return c03.tm_replay("C04", path, tier, seed)
