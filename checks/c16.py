"""C16 — values compare, hash, order and serialise consistently (DESIGN §8 C16)."""
import gv

PROP = "C16"
REQ_PROPS = ["GV.Props.Props_C16"]
REQ_RUN = ["GV.Value.Run"]

TRUSTED = [
    "Coq 8.16.1 kernel (coqc; vm_compute used to run the model and in the _refuted witnesses; no native_compute)",
    "hand-written models coq/Value/{Ieee,Model,Bincode,Spill}.v of types/value.rs, types/timestamp.rs, bincode 2.0.1 "
    "standard() through serde, execution/spill/serializer.rs; floats are bit patterns (no reals, no PrimFloat); "
    "tied to the code by the differential run of this check",
    "harness/src/bin/c16.rs (value pool, generators, recording Hasher, printing of observations as Coq terms), lib/gv.py",
    "rustc's f64/f32 comparison and `as f64` semantics are what Value/Ieee.v says (validated on the boundary set on every run)",
]


def _merge_fragment(chk):
    """known-findings.json is assembled from known.d/*.json by the integrator; until (and after)
    that happens the committed fragment of this property is read as well (union by id)."""
    import json
    frag = gv.os.path.join(gv.ROOT, "known.d", PROP + ".json")
    if gv.os.path.exists(frag):
        have = {f["id"] for f in chk.known}
        for f in json.load(open(frag)).get("findings", []):
            if f.get("property") == PROP and f["id"] not in have:
                chk.known.append(f)


def run(tier, seed):
    chk = gv.Check(PROP, tier, seed, level="proof")
    _merge_fragment(chk)
    proof = gv.proof_status(PROP, REQ_PROPS)
    ncases = gv.scaled(PROP, tier, 400, 4000, chk)
    ok, out, binp = gv.cargo_build("c16")
    if not ok:
        chk.violation("build", {"what": "the harness no longer builds against /repo's working tree", "log": out[-3000:],
                                "broken": ["correspondence C16: harness build failed"]}, no_input=True)
        return chk.finish(proof)
    # passing cases of one kind are written 4 at a time as one conjunction (fixed coqc start-up cost per
    # shard); `c16 --batch 1` writes them singly (use it to localise a correspondence mismatch)
    rc, so, se, cases, dt = gv.run_harness(binp, ["--seed", seed, "--cases", ncases, "--tier", tier, "--batch", 4],
                                           gv.os.path.join(gv.BUILD, "out", "c16.jsonl"))
    if rc != 0:
        chk.violation("crash", {"what": "the harness crashed", "stderr": se, "broken": ["harness exit %d" % rc]}, no_input=True)
        return chk.finish(proof)
    gv.standard_flow(chk, REQ_RUN, cases, proof, "C16")
    chk.coverage["rule"] = (
        "fixed value pool (all NaN classes with payloads, +-0, +-inf, subnormals, 2^53+-1, i64 extremes, empty/non-ASCII strings, "
        "bytes, timestamps, vectors, lists/maps nested <= 4): every unordered pair (both directions observed: HashableValue ==, "
        "derived ==, OrderableValue ==/cmp, hash feeds through a recording Hasher, DISTINCT/GROUP BY keys), all triples of a numeric "
        "boundary set and sampled triples (transitivity, BTreeIndex size under all insertion orders); per value: hash feed, real "
        "bincode bytes + decode, spill bytes + decode, OrderableValue::try_from; generated values (depth <= 4), near-equal "
        "mutations, mutated encodings fed to both decoders; f64/f32 comparison, classification and i64->f64 rounding on boundary "
        "and random bit patterns; bincode varints. Non-trivial = pair of different variants or a boundary float/int, value other "
        "than Null/Bool, non-empty byte input; distinct = distinct (kind,input). Passing observations of one kind are grouped 4 per "
        "case (evaluations/distinct_nontrivial count cases; observations_total counts the single observations)")
    picks = []
    seen = set()
    for c in cases:
        if c["k"] not in seen and c.get("nt"):
            seen.add(c["k"])
            picks.append({"kind": c["k"], "input": c["in"][:200], "impl": c["impl"][:200], "oracle": c["oracle"]})
    chk.coverage["samples"] = picks[:12]
    chk.coverage["trusted_base"] = TRUSTED
    tags = chk.coverage.get("tags", {})
    chk.coverage["observations"] = {k[4:]: v for k, v in tags.items() if k.startswith("obs:")}
    chk.coverage["observations_total"] = sum(v for k, v in tags.items() if k.startswith("obs:"))
    chk.assumptions = [
        "std::hash::Hasher default methods (write_str = write + write_u8(0xff), write_length_prefix = write_usize) are those of the "
        "toolchain that built the harness; observed through the recording Hasher, not assumed",
        "well-formedness of values (wfb: UTF-8 strings, strictly key-sorted maps, machine ranges) is what the Rust types guarantee; "
        "checked on every generated and decoded value",
        "JSON conversions of the Python/Node/WASM bindings, Debug text used as DISTINCT/GROUP BY key: see level_note",
    ]
    return chk.finish(proof)


def replay(path, tier, seed):
    print(open(path).read())
    return run(tier, seed)
