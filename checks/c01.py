"""C01 — transactions read a stable snapshot: no dirty, fuzzy or phantom reads (DESIGN §8 C01).

Flow: proofs (Props_C01) -> harness against /repo's working tree (histories through GrafeoDB::session())
-> correspondence (model == implementation on every step of every history, `chk_hist`)
-> oracle = the specification `snapshot_ok` of coq/Mvcc/Spec.v evaluated in Coq on the implementation's
   outputs (`c01_fails`), every failing position classified by the K predicates of coq/Mvcc/Run.v
-> decision by gv.standard_flow."""
import json
import os
import re

import gv

PROP = "C01"
REQ_PROPS = ["GV.Props.Props_C01"]
REQ_RUN = ["GV.Mvcc.Run"]
CLASSES = {1: "C01-K1", 2: "C01-K2", 3: "C01-K3", 4: "C01-K4", 5: "C01-K5", 6: "C01-K6"}   # C01-K7 fixed by 752d5ee
TAG = os.environ.get("GV_OUT_TAG", "")     # set by tools/seedtest.sh: keeps scratch runs apart from registered runs

TRUSTED = [
    "Coq 8.16.1 kernel (coqc; vm_compute runs the model and the specification; no native_compute)",
    "hand-written model coq/Mvcc/Model.v of session.rs / mvcc.rs / lpg/store.rs / operators/{scan,expand,mutation,project}.rs / "
    "rdf/store.rs / planner_rdf.rs triple operators / transaction/manager.rs (core), tied to the code by the step-by-step "
    "differential run of this check",
    "the specification coq/Mvcc/Spec.v (snapshot semantics over a plain graph) is the reading of the property",
    "harness/src/bin/c01.rs (generators, statement templates, canonicalisation = sorting), lib/gv.py, checks/c01.py",
]


def load_known_fallback(chk, prop):
    """known-findings.json is assembled by the integrator from known.d/*.json; until then read the fragment."""
    if not [f for f in chk.known if f.get("property") == prop]:
        p = os.path.join(gv.ROOT, "known.d", prop + ".json")
        if os.path.exists(p):
            chk.known = [f for f in json.load(open(p)).get("findings", []) if f.get("property") == prop]


def split_term(c):
    """'chk_hist OPS OUTS' -> 'OPS OUTS'"""
    assert c["coq"].startswith("chk_hist ")
    return c["coq"][len("chk_hist "):]


def parse_bools(txt):
    return [x == "true" for x in re.findall(r"true|false", txt)]


def derive_failures(cases, vals, kvals, classes, what):
    """vals[i] = printed list of (position, class) for case i; kvals[i] = {class: value of the class predicate
    `c0x_k class` on case i, evaluated by Coq in the same run (c01_report / c02_report)}.  Marks the case's oracle
    and returns the pseudo-cases (one per history and class) that carry the failures through gv.standard_flow;
    their `kcoq` is the already evaluated value of the class predicate."""
    extra = []
    for c, v, kv in zip(cases, vals, kvals):
        pairs = [(int(p), int(k)) for p, k in re.findall(r"\((\d+), (\d+)\)", v)]
        c["fails"] = pairs
        if not pairs:
            c["oracle"] = "ok"
            continue
        c["oracle"] = "na"     # the failures are carried by the pseudo-cases below
        byclass = {}
        for p, k in pairs:
            byclass.setdefault(k % 10, []).append((p, k))
        for k, pk in sorted(byclass.items()):
            e = {"k": c["k"], "in": c["in"], "impl": c["impl"], "oracle": "fail", "nt": False,
                 "msg": "%s fails at step(s) %s of this history%s" % (
                     what, ", ".join("%d%s" % (p, " (the MATCH of a write statement)" if kk >= 10 else "") for p, kk in pk[:6]),
                     "" if k in classes else " and no finding class explains it"),
                 "tags": ["oracle-fail:K%d" % k]}
            if k in classes:
                e["kid"] = classes[k]
                e["kcoq"] = "true" if kv.get(k) else "false"
            extra.append(e)
    return extra


def run(tier, seed, replay_file=None):
    chk = gv.Check(PROP, tier, seed, level="proof")
    load_known_fallback(chk, PROP)
    proof = gv.proof_status(PROP, REQ_PROPS)
    # quick: 1800 histories on the pinned tree, up to 5400 when /repo has moved; thorough: 12000
    ncases = gv.scaled(PROP, tier, 1800, 5400, chk) if tier == "quick" else 12000
    ok, out, binp = gv.cargo_build("c01")
    if not ok:
        chk.violation("build", {"what": "the harness no longer builds against /repo's working tree", "log": out[-3000:],
                                "broken": ["correspondence C01: harness build failed"]}, no_input=True)
        return chk.finish(proof)
    if os.environ.get("GV_SELFTEST_CASES_C01"):     # own self-tests only (patched scratch trees under load): fewer cases
        ncases = int(os.environ["GV_SELFTEST_CASES_C01"])
    rc, so, se, cases, dt = gv.run_harness(binp, ["--seed", seed, "--cases", ncases, "--tier", tier, "--prop", "c01"],
                                           os.path.join(gv.BUILD, "out", "c01%s.jsonl" % TAG))
    if rc != 0:
        chk.violation("crash", {"what": "the harness crashed", "stderr": se, "broken": ["harness exit %d" % rc]}, no_input=True)
        return chk.finish(proof)
    okm, outm = gv.coq_make([gv.vo_target(r) for r in REQ_RUN])
    if not okm:
        chk.violation("model", {"what": "the executable model / specification no longer compiles", "log": outm[-3000:],
                                "broken": ["coq build of %s failed" % REQ_RUN]}, no_input=True)
        return chk.finish(proof)
    for c in cases:
        c["_args"] = split_term(c)
    # one evaluation per history (Run.v c01_report): model == implementation, the failing positions with their
    # classes, and the class predicates c01_k 1 .. 6 on this history
    both = gv.coq_eval(PROP + "_oracle" + TAG, REQ_RUN, ["c01_report %s" % c["_args"] for c in cases], shard=40)
    vals, kvals = [], []
    for c, v in zip(cases, both):
        m = re.match(r"\((true|false), (\[.*?\]), (\[.*\])\)$", v)
        if not m:
            raise RuntimeError("unexpected oracle value: %s" % v[:200])
        c["coq"] = m.group(1)       # the evaluated correspondence term (gv.standard_flow re-reads the literal)
        vals.append(m.group(2))
        kvals.append(dict(zip(range(1, 7), parse_bools(m.group(3)))))
    extra = derive_failures(cases, vals, kvals, CLASSES, "snapshot_ok")
    allc = cases + extra
    gv.standard_flow(chk, REQ_RUN, allc, proof, "C01")
    nfail_hist = sum(1 for c in cases if c["oracle"] != "ok")
    chk.coverage["evaluations"] = len(cases)
    chk.coverage["histories_snapshot_ok"] = len(cases) - nfail_hist
    chk.coverage["histories_nontrivial_snapshot_ok"] = sum(1 for c in cases if c["oracle"] == "ok" and c.get("nt"))
    chk.coverage["histories_with_failures"] = nfail_hist
    chk.coverage["steps"] = sum(len(c["in"].split("; ")) for c in cases)
    chk.coverage["rule"] = ("histories of 3-4 sessions (+ an observer) x 4-40 operations over <= 6 nodes / 6 edges / 6 triples, driven "
                            "single-threaded through GrafeoDB::session(): direct API and GQL / SPARQL statement templates; streams: corpus "
                            "(witnesses of the _refuted theorems), overlap (writer's transaction open while another session reads), own (a "
                            "transaction reads its own creations / in-place changes / deletes through every path), epoch (writes after "
                            "commits), clean (built to stay outside the finding classes), random; statements and scan-based reads go "
                            "through Session::execute (GQL), execute_cypher, execute_with_params, execute_gremlin (unlabelled scan / count) "
                            "and the GrafeoDB::execute* convenience calls (tags via:*); a history is non-trivial "
                            "when >= 2 sessions act and some read happens strictly inside another session's open transaction; distinct = "
                            "distinct (stream, operation list)")
    chk.coverage["samples"] = [{"kind": c["k"], "input": c["in"][:300], "impl": c["impl"][:300]} for c in cases[9:13]]
    chk.coverage["trusted_base"] = TRUSTED
    chk.assumptions = [
        "nothing on the session / query path calls TransactionManager::record_write or record_read (so Session::commit cannot "
        "report a conflict); validated by the run: every commit result is compared",
        "hash-map iteration order is not observable: every list output is compared sorted",
        "property indexes, edge properties, MERGE, GraphQL and most Gremlin renderings of the reads, real thread interleavings: see level_note",
    ]
    return chk.finish(proof)


def replay(path, tier, seed):
    print(open(path).read())
    return run(tier, seed)
