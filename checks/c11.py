"""C11 — query results obey the algebra of predicates, limits and aggregates (DESIGN §8 C08–C11)."""
import json
import os

import gv

PROP = "C11"
REQ_PROPS = ["GV.Props.Props_C11"]
REQ_RUN = ["GV.Query.Run"]
BINS = ["c11"]

TRUSTED = [
    "Coq 8.16.1 kernel (coqc; vm_compute used to run the model; no native_compute)",
    "hand-written models coq/Query/Expr.v (ExpressionPredicate::eval_expr), coq/Query/Stream.v (Filter, Limit, Skip, LimitSkip, "
    "Distinct, Union, Simple/HashAggregate count, clause wiring of gql_translator/cypher_translator/planner::plan_filter), coq/Query/StreamAgg.v "
    "(sum/avg/min/max/first/last/collect, typed result vectors, plan_aggregate's result types) and coq/Query/StreamSort.v (sort.rs comparator, stable sort, batches), "
    "tied to the code by the differential run of this check",
    "harness/src/bin/c11.rs (mock child operator, generators, query text printers for GQL/Cypher/Gremlin/GraphQL, oracles, printing of observations as Coq terms), lib/gv.py",
    "binary64 comparison / epsilon-equality / i64->f64 conversion are defined on bit patterns in Expr.v and validated against Rust by the eval cases; float arithmetic is uninterpreted (theorems hold for every table) and never generated",
]


def load_known():
    """findings of this property: the assembled known-findings.json plus (until the integrator
    assembles it) the fragment known.d/C11.json"""
    fs = {f["id"]: f for f in gv.load_known(PROP)}
    frag = os.path.join(gv.ROOT, "known.d", "C11.json")
    if os.path.exists(frag):
        for f in json.load(open(frag)).get("findings", []):
            if f.get("property") == PROP:
                fs.setdefault(f["id"], f)
    return list(fs.values())


def run(tier, seed, replay_file=None):
    chk = gv.Check(PROP, tier, seed, level="proof")
    chk.known = load_known()
    proof = gv.proof_status(PROP, REQ_PROPS)
    ok, out, binp = gv.cargo_build("c11")
    if not ok:
        chk.violation("build", {"what": "the harness no longer builds against /repo's working tree", "log": out[-3000:],
                                "broken": ["correspondence C11: harness build failed"]}, no_input=True)
        return chk.finish(proof)
    ncases = 1600 if tier == "quick" else 16000
    args = ["--seed", seed, "--cases", ncases, "--tier", tier]
    if replay_file:
        args += ["--replay", replay_file]
    rc, so, se, cases, dt = gv.run_harness(binp, args, os.path.join(gv.BUILD, "out", "c11.jsonl"))
    if rc != 0:
        chk.violation("crash", {"what": "the harness crashed (a panic of the implementation outside catch, or of the harness)",
                                "stderr": se, "broken": ["harness exit %d" % rc]}, no_input=True)
        return chk.finish(proof)
    # spread the expensive cases (big tables, O(n^2) dedup in the model) over the coqc shards
    import random
    random.Random(12345).shuffle(cases)
    gv.standard_flow(chk, REQ_RUN, cases, proof, "C11", max_report=5)
    chk.coverage["rule"] = (
        "operator level: generated chunk lists (0..5 chunks of 0..8 rows, or 1..4 chunks around 2047/2048/2049/4095/4096/4097/5000 rows, "
        "each with none/partial/empty/full selection vector) through the real Filter/Limit/Skip/Skip;Limit/LimitSkip/Distinct/Union/"
        "Simple+HashAggregate (count, sum, avg, min, max, first, last, collect; Any or planner-typed result vectors; i64 extremes)/Sort (1..3 keys, "
        "ASC/DESC, NULLS FIRST/LAST, ties, one orderable class per key column) over a mock child, and ExpressionPredicate::eval_at on generated expressions (comparisons, checked "
        "arithmetic with extreme operands, AND/OR/XOR/NOT, IN, IS [NOT] NULL, string operators, missing and NULL properties); engine level: "
        "generated graphs of 0..14 labelled nodes and one 4100-node table through session.execute / execute_cypher / execute_gremlin / execute_graphql "
        "(partition, stacked filters, windows with and without ORDER BY, count, DISTINCT / dedup, UNION ALL, aggregates, two-key ORDER BY). "
        "non-trivial = the predicate is unknown on at least one row, or the skip/limit window crosses a chunk boundary, or "
        "(distinct/group) duplicates across several chunks; distinct = distinct (kind, input)")
    chk.coverage["samples"] = [{"kind": c["k"], "input": c["in"][:300], "impl": c["impl"][:300]} for c in cases[:3] + cases[len(cases) // 2:len(cases) // 2 + 3]]
    chk.coverage["trusted_base"] = TRUSTED
    chk.coverage["harness_wall_s"] = round(dt, 1)
    chk.assumptions = [
        "output schemas passed to Limit/Skip/Distinct have one generic (Any) column per input column (what the planner passes); other schemas are outside the model",
        "the Sort model (stable insertion sort) stands for slice::sort_by only where the comparator is a total preorder on the rows (evaluated per case: cmp_consistent); key columns of mixed types / NaN are outside the model and not generated",
        "aggregate inputs are inside the modelled domain (no Float64 and no numeric-looking String in SUM/AVG columns; AVG partial sums within 2^53); engine cases outside it are run for the oracle only",
        "Gremlin and GraphQL plans are compared through the Cypher wiring of the model (Sort, then Skip, then Limit); Gremlin order() is used with a single by() (every further by() replaces the key in the translator)",
        "engine level uses auto-commit sessions, labelled scans and no property index (C01's epoch defect, C10's index path are not on the path)",
        "Debug text of values inside list group/distinct keys is modelled for Null/Bool/Int64/plain-ASCII strings only",
    ]
    return chk.finish(proof)


def replay(path, tier, seed):
    print(open(path).read())
    return run(tier, seed)
