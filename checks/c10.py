"""C10 — indexes, pruning, caching and execution strategy change speed, not answers (DESIGN §8 C10).

Shares the harness binary `c08` (`--prop C10`) and the decision code with checks/c08.py."""
import gv
from checks import c08

PROP = "C10"
REQ_PROPS = ["GV.Props.Props_C10"]
REQ_RUN = c08.REQ_RUN
BINS = ["c08"]

RULE = ("five scenario families over generated graphs (0-12 nodes, 0-30 edges, heterogeneous/missing properties, Bool properties): "
        "index (the same query with a property index on every subset of the keys it filters by equality, index created before or after "
        "the data, equalities alone / with further conjuncts, Int/Float literals swapped), range (a lone range or BETWEEN predicate = "
        "range path, vs the doubled predicate = generic filter), zone (an edge predicate with / without a same-named node column; a node "
        "predicate on a tight column vs the column widened by an unrelated node; '<>' on heterogeneous columns), fact (>= 2 hops with "
        "factorized execution on / off, plain and COUNT / COUNT DISTINCT returns), cache (cold run, then 1-2 rounds of inserts, deletes, "
        "SET, index creation / removal, each followed by the cached plan executed against the changed store vs a fresh database built by "
        "the same script); per execution: model of the dumped plan under the engine's options == engine rows (correspondence), and the "
        "two executions of the pair agree (oracle, decided in Coq); non-trivial = the alternative path was really taken / the cached "
        "plan was reused; distinct = distinct (kind,input)")
ASSUME = c08.ASSUME + [
    "the plan cache is exercised by handing the plan compiled before the data changes to the model and by re-running the text on the same "
    "database object (whose cache then serves it); a fresh database built by the same script is the reference",
]


def run(tier, seed):
    return c08.run_prop(PROP, REQ_PROPS, tier, seed, 600 if tier == "quick" else 5000, RULE, ASSUME)


def replay(path, tier, seed):
    print(open(path).read())
    return run(tier, seed)
