"""C07 — snapshot export/import, save and in-memory copy preserve the whole graph (DESIGN §8 C07).
Same harness binary and Coq area as C05."""
from checks import c05

REQ_PROPS = ["GV.Props.Props_C07"]
REQ_RUN = ["GV.Wal.Run"]
BINS = ["c05"]

RULE = ("stores built through histories of API calls (deleted entities, sparse ids, every value type, nested lists/maps, NaN payloads, "
        "empty strings and labels, zero-length vectors, removed properties, session-created entities): source dumps (store epoch and "
        "latest) after all copies were taken, two exports (byte-equal), the exported bytes against the model's encoding of the observed "
        "enumeration, import of the export, to_memory(), save()+open() — each copy's dumps and next node/edge id; byte strings through "
        "import_snapshot: every truncation of a valid snapshot, single-bit flips, trailing bytes, wrong version bytes, random bytes, ids "
        "u64::MAX and u64::MAX-1 — the real decoder's result, the model decoder's result and the observed outcome (error, panic, "
        "complete database) compared; each import of a byte string runs in a child process of the harness (an allocation failure aborts the process: finding K4). non-trivial = at least two live entities / every byte-string case; distinct = distinct (kind, input)")

ASSUMPTIONS = [
    "observable equality is equality of graph dumps (ids, label sets, endpoints, types, property maps with values as bincode bytes, i.e. "
    "bit patterns for floats); 'the same answers to every query' follows only as far as queries are functions of the dump (C14/C08 territory)",
    "hash-map enumeration order of all_nodes()/all_edges() is not modelled: the model takes the order the export used from the exported bytes",
    "save() into a non-empty directory and open_in_memory() are not exercised separately (open_in_memory = open + to_memory + close)",
] + c05.ASSUMPTIONS[:1]


def run(tier, seed):
    return c05.wal_flow("C07", tier, seed, RULE, ASSUMPTIONS)


def replay(path, tier, seed):
    return c05.wal_replay("C07", path, tier, seed, run)
