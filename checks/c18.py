"""C18 — vector search returns real, correctly scored, correctly ordered neighbours (DESIGN §8 C18)."""
import json
import os

import gv

PROP = "C18"
REQ_PROPS = ["GV.Props.Props_C18"]
REQ_RUN = ["GV.Vec.Run"]
BINS = ["c18"]

TRUSTED = [
    "Coq 8.16.1 kernel (coqc; vm_compute used to run the model; no native_compute)",
    "hand-written models coq/Vec/{Hnsw,Brute,Kernel,Quant,F32}.v of index/vector/{hnsw,mod,simd,distance,quantization}.rs, "
    "tied to the code by the differential run of this check (exact inputs: f32 arithmetic is exact, every implementation "
    "distance is compared as its f32 bit pattern with the model's exact integer)",
    "std::collections::BinaryHeap is modelled by Vec/Hnsw.v bpush/bpop (transcribed from the std source, re-validated "
    "against the real heap by the 'bheap' cases of every run); heap_ok is PROVED for the transcription (std_heap_keeps_contents)",
    "std's stable sort on <= 20 elements is the insertion sort of Vec/SmallSort.v (transcribed; used only for the NaN cases)",
    "harness/src/bin/c18.rs (generators, oracle, printing of observations as Coq terms), lib/gv.py",
    "IEEE rounding of the f32 kernels is runtime, not modelled (support: relative-error comparison on float inputs)",
]


_orig_coq_eval = gv.coq_eval


def _coq_eval_small_shards(name, requires, exprs, shard=250):
    """history cases are heavy (one case = a whole replay): many small shards use all cores"""
    return _orig_coq_eval(name, requires, exprs, shard=16)


def run(tier, seed):
    gv.coq_eval = _coq_eval_small_shards
    try:
        return _run(tier, seed)
    finally:
        gv.coq_eval = _orig_coq_eval


def _run(tier, seed):
    chk = gv.Check(PROP, tier, seed, level="proof")
    proof = gv.proof_status(PROP, REQ_PROPS)
    ncases = 520 if tier == "quick" else 6000
    ok, out, binp = gv.cargo_build("c18")
    if not ok:
        chk.violation("build", {"what": "the harness no longer builds against /repo's working tree", "log": out[-3000:],
                                "broken": ["correspondence C18: harness build failed"]}, no_input=True)
        return chk.finish(proof)
    rc, so, se, cases, dt = gv.run_harness(binp, ["--seed", seed, "--cases", ncases, "--tier", tier],
                                           os.path.join(gv.BUILD, "out", "c18.jsonl"))
    if rc != 0:
        chk.violation("crash", {"what": "the harness crashed", "stderr": se, "broken": ["harness exit %d" % rc]}, no_input=True)
        return chk.finish(proof)
    hook = "hook=true" in se
    if not hook:
        chk.violation("hook", {"what": "HnswIndex::verif_dump (cfg grafeo_verif hook, /repo 4a540e5) is gone: the graph cannot be compared with the model",
                               "broken": ["correspondence C18: hook missing"]}, no_input=True)
    gv.standard_flow(chk, REQ_RUN, cases, proof, "C18")
    chk.coverage["hook_applied"] = hook
    chk.coverage["rule"] = (
        "kernels: all four metrics on exact integer / dyadic vectors (dims 1,3,7,8,9,15,16,17,31,33,128, zero vectors, duplicates, "
        "difference only in the last coordinate), result compared as f32 bits with the plain definition and with the 8-/4-/1-lane "
        "evaluation; brute_force_knn(+filtered) on integer vectors with ties and duplicate ids, k in {0,1,n-1,n,n+1,usize::MAX}, and on "
        "vectors of extreme magnitude (inf / NaN distances; <= 20 vectors) against the comparator model; "
        "HNSW: histories of insert / re-insert / remove / remove-absent / search / batch / len on the real HnswIndex "
        "(M 1..16, M0 1..32, ef_construction 1..128, k and ef in {0,1,..,>size,usize::MAX}), replayed operation by operation in the "
        "model (ids, f32 distance bits, batch = singles, len; through the hook also levels, adjacency, entry point, max level after "
        "every mutation); a history is non-trivial when it has >= 1 remove or re-insert and >= 1 search with 1 <= k <= size; "
        "oracle on every search of every history (also float indexes of 120..400 vectors, QuantizedHnswIndex, GrafeoDB::vector_search): "
        "<= k, distinct, live, exact distance, sorted, batch = one-by-one, and at least min(k, r) results where r = number of vectors "
        "that layer-0 links reach from the search's start node (recomputed by the harness from the hook's dump, and by the model); "
        "QuantizedHnswIndex (none/scalar/binary, rescoring on/off, factor 1..4, k up to usize::MAX) against a twin HnswIndex with the "
        "same seed replayed in the model + the wrapper model; VectorScanOperator / VectorJoinOperator (brute force, static query, "
        "HNSW, distance filter, chunk capacities 1..6 and default, left chunks 1..3) against the per-row searches and the loop model; "
        "scalar quantiser (codes, dequantize, asymmetric and u8 distances) on an exact grid, binary quantiser (packed words, hamming, "
        "hamming_simd; dims 1..200 around the 64-bit word boundary), product quantiser with explicit integer centroids (codes with ties, "
        "distance table, ADC distance, reconstruction; K up to 256); distinct = distinct (kind,input)")
    hs = [c for c in cases if c["k"] == "hnsw-history"]
    chk.coverage["samples"] = [{"kind": c["k"], "input": c["in"][:300], "impl": c["impl"][:200]} for c in (hs[1:4] + cases[20:23])]
    chk.coverage["trusted_base"] = TRUSTED
    chk.assumptions = [
        "ext_ok: OrderedFloat's order is a total preorder and std's BinaryHeap keeps exactly what was pushed and not popped "
        "(premise of search_sound/search_live/removed_never_returned/search_complete; proved for the list heaps and for the "
        "transcribed BinaryHeap: zext_ok)",
        "the level of an inserted node (RNG) and the key picked by remove (HashMap iteration order) are inputs of the model",
        "IEEE rounding is runtime: on inexact inputs the kernels are only compared within a relative error bound (support)",
        "search_complete carries layer-0 reachability as a hypothesis, as the property does (k results for k REACHABLE vectors); that "
        "remove()/re-insert can leave live vectors unreachable (search_complete_refuted) is reported as an observation "
        "(tags live-vector-unreachable-at-layer0, shortfall-explained-by-unreachability), not as a property failure",
        "QuantizedHnswIndex: the inner graph is private; a twin HnswIndex::with_seed with the same seed and operations stands for it "
        "(removals of the entry point are avoided in those cases); the product quantiser's ranking is oracle-only",
    ]
    return chk.finish(proof)


def replay(path, tier, seed):
    print(open(path).read())
    return run(tier, seed)
