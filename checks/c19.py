"""C19 — graph algorithms compute what their definitions say (DESIGN §8 C19).

The decision is taken by Coq: every `cert` case carries the term `c_xxx graph output` (a
certificate checker of coq/Algo/Cert.v, proved sound in coq/Algo/Proofs*.v) applied to what the
real algorithm returned on a graph built in a real store; `false` means the answer violates the
algorithm's specification on that graph.  That includes the structure algorithms (triangle
counts, local clustering coefficient, k-core numbers, bridges, articulation points) and PageRank
as a distribution: their executable specifications (coq/Algo/CertStruct.v, proved sound in
ProofsStruct.v / ProofsPr.v) are evaluated in Coq on the implementation's outputs; the harness's own
brute-force answers only cross-check the Coq verdicts.  Kinds still decided by the harness alone
(support only): degree centrality, agreement between algorithms, consistency between API
functions, path counts of ShortestPathOperator, community labelling totality.  `corr` cases compare
the transcribed models (Bellman-Ford, Dijkstra, Kruskal, closure reachability, PageRank over exact
rationals) with the implementation.  All findings of known.d/C19.json are repaired in /repo
(status fixed): any failing answer is a VIOLATION."""
import json
import gv

PROP = "C19"
REQ_PROPS = ["GV.Props.Props_C19"]
REQ_RUN = ["GV.Algo.Run"]
BINS = ["c19"]

TRUSTED = [
    "Coq 8.16.1 kernel (coqc; vm_compute runs the certificate checkers; no native_compute)",
    "coq/Algo/Spec.v is the specification (walks, distance as minimum over walks, connectivity closures, forests, flows/cuts, "
    "triangles, k-dense sets, bridges, cut vertices, distributions; f64_scaled = the value of a binary64 bit pattern)",
    "harness/src/bin/c19.rs: builds the graph through LpgStore/GrafeoDB, checks that node_ids()/edges_from() show exactly that graph, "
    "prints graph + algorithm output as Coq terms (floats as bit patterns); brute-force oracles cross-check the Coq verdicts; lib/gv.py",
    "integer weights/capacities so that the implementation's f64 path/flow arithmetic is exact (non-integral outputs are reported as failures)",
]


def _merge_fragment(chk):
    frag = gv.os.path.join(gv.ROOT, "known.d", PROP + ".json")
    if gv.os.path.exists(frag):
        have = {f["id"] for f in chk.known}
        for f in json.load(open(frag)).get("findings", []):
            if f.get("property") == PROP and f["id"] not in have:
                chk.known.append(f)


def c19_flow(chk, cases, proof, max_report=3):
    """DESIGN §3 with the Coq certificate as the oracle:
       cert case: coq false => the implementation's answer violates its specification (oracle failure);
                  the harness's own brute-force verdict must agree with Coq, else the check itself is broken
       corr case (model == impl): coq false => correspondence broken
       brute case: decided by the harness."""
    ok, out = gv.coq_make([gv.vo_target(r) for r in REQ_RUN])
    if not ok:
        chk.violation("model", {"what": "the certificate checkers no longer compile", "broken": ["coq build of %s failed" % REQ_RUN],
                                "log": out[-3000:]}, no_input=True)
        return
    idx = [i for i, c in enumerate(cases) if c.get("coq")]
    # interleave the cases over the shards (cases of one graph are contiguous and equally expensive)
    nsh = len(idx) // 120 + 1
    idx.sort(key=lambda i: (i % nsh, i))
    vals = gv.coq_eval(PROP + "_cert", REQ_RUN, [cases[i]["coq"] for i in idx], shard=120)
    disagree, mism, fails = [], [], []
    for i, v in zip(idx, vals):
        c = cases[i]
        if c.get("msg", "").startswith("corr"):
            if v != "true":
                mism.append(i)
            continue
        shadow = c.get("oracle")
        c["coq_value"] = v
        if (v == "true") != (shadow != "fail") and shadow in ("ok", "fail"):
            disagree.append(i)
        c["oracle"] = "ok" if v == "true" else "fail"
        if v != "true":
            c["msg"] = "the Coq certificate checker rejects the implementation's output"
    fails = [i for i, c in enumerate(cases) if c.get("oracle") == "fail"]
    open_ids = chk.open_finding_ids()
    kidx = [i for i in fails if cases[i].get("kcoq") and cases[i].get("kid") in open_ids]
    kvals = gv.coq_eval(PROP + "_k", REQ_RUN, [cases[i]["kcoq"] for i in kidx], shard=400)
    listed = {i for i, v in zip(kidx, kvals) if v == "true"}
    unlisted = [i for i in fails if i not in listed]
    for i in listed:
        chk.known_finding(cases[i]["kid"])
    unlisted.sort(key=lambda i: len(cases[i]["in"]))
    for n, i in enumerate(unlisted[:max_report]):
        c = cases[i]
        spec = c["in"].split(" | ")[0]
        chk.violation("fail%d" % n, {"kind": c["k"], "input": c["in"], "graph": spec, "impl": c.get("impl"), "why": c.get("msg", ""),
                                     "coq": c.get("coq"), "what": "the implementation's answer violates the algorithm's specification on this graph",
                                     "rerun": ".build/target/debug/c19 --graph '%s'" % spec})
    broken = []
    if mism:
        first = cases[mism[0]]
        model = None
        if first.get("show"):
            try:
                model = gv.coq_eval(PROP + "_show", REQ_RUN, [first["show"]])[0]
            except RuntimeError:
                model = None
        broken.append("correspondence Algo: model and implementation differ on %d case(s), first: %s %s impl=%s model=%s"
                      % (len(mism), first["k"], first["in"], first.get("impl"), model))
    if disagree:
        c = cases[disagree[0]]
        broken.append("the harness's brute-force verdict and the Coq certificate disagree on %d case(s), first: %s %s (coq=%s)"
                      % (len(disagree), c["k"], c["in"], c.get("coq_value")))
    if proof is not None and proof["failures"]:
        broken += proof["failures"]
    if broken and not unlisted:
        chk.violation("broken", {"what": "a proof obligation, the model/implementation correspondence or the oracle cross-check no longer holds; "
                                         "no failing input outside the listed findings was found", "broken": broken}, no_input=True)
    elif broken:
        chk.notes.append("; ".join(broken)[:2000])
    chk.coverage.update({
        "evaluations": len(cases),
        "distinct_nontrivial": gv.distinct_nontrivial(cases),
        "traces_validated_against_impl": len(idx),
        "certificate_cases": len([i for i in idx if not cases[i].get("msg", "").startswith("corr")]),
        "correspondence_mismatches": len(mism),
        "oracle_crosscheck_disagreements": len(disagree),
        "oracle_failures": len(fails),
        "oracle_failures_listed": len(listed),
        "oracle_failures_unlisted": len(unlisted),
        "kinds": gv.histogram(cases),
        "tags": gv.tag_histogram(cases),
        "graphs": len({c["in"].split(" | ")[0] for c in cases}),
    })


def _run(tier, seed, extra=None):
    chk = gv.Check(PROP, tier, seed, level="proof")
    _merge_fragment(chk)
    proof = gv.proof_status(PROP, REQ_PROPS)
    # quick: 40 generated graphs on the pinned tree, up to 160 when /repo (an anchored file) has moved; thorough: 300
    ngraphs = gv.scaled(PROP, tier, 40, 160, chk) if tier == "quick" else 300
    ok, out, binp = gv.cargo_build("c19")
    if not ok:
        chk.violation("build", {"what": "the harness no longer builds against /repo's working tree", "log": out[-3000:],
                                "broken": ["correspondence C19: harness build failed"]}, no_input=True)
        return chk.finish(proof)
    args = ["--seed", seed, "--cases", ngraphs, "--tier", tier] + (extra or [])
    rc, so, se, cases, dt = gv.run_harness(binp, args, gv.os.path.join(gv.BUILD, "out", "c19.jsonl"))
    if rc != 0:
        chk.violation("crash", {"what": "the harness crashed", "stderr": se, "broken": ["harness exit %d" % rc]}, no_input=True)
        return chk.finish(proof)
    c19_flow(chk, cases, proof)
    chk.coverage["rule"] = (
        "generated directed multigraphs (0-10 nodes, 0-25 edges; shapes: random, forward-only (DAG), two parts, rings with parallel edges, "
        "symmetric pairs; weight profiles: non-negative with zeros and ties, negative admitted, all missing, mixed Int64/Float64/String/"
        "missing; deleted edges, detach-deleted nodes; LpgStore or GrafeoDB) through every public algorithm function; every source and "
        "pair on graphs with <= 4 / <= 3 nodes, sampled otherwise (all sources in the thorough tier); plus graphs with 1/2/4/8 nodes and "
        "out-degrees 0/1/2/4 on which PageRank's binary64 arithmetic is exact (damping 0, 1/4, 1/2, 3/4, 1; 0-6 iterations; tolerances that "
        "do and do not trigger the early exit). A case is non-trivial when its "
        "graph has >= 3 nodes, >= 3 edges and a cycle, a parallel edge, an unreachable node or a zero-weight edge; distinct = distinct "
        "(kind, graph, arguments)")
    picks, seen = [], set()
    for c in cases:
        if c["k"] not in seen and c.get("nt"):
            seen.add(c["k"])
            picks.append({"kind": c["k"], "input": c["in"][:240], "impl": c["impl"][:240], "oracle": c["oracle"]})
    chk.coverage["samples"] = picks[:14]
    chk.coverage["trusted_base"] = TRUSTED
    chk.assumptions = [
        "the implementation's f64 results are compared as exact integers (all generated weights/capacities are integers of magnitude < 10)",
        "PageRank on general inputs is checked as a distribution only (finite, >= 0, exact sum of the returned binary64 values within 1e-9 of 1); "
        "its values are compared with the exact-rational model only on inputs where binary64 arithmetic is exact",
        "degree centrality, agreement between algorithms, consistency between API functions (clustering_coefficient vs triangle_count etc.): "
        "harness only, support (no theorem)",
        "betweenness/closeness centrality, global clustering coefficient, label propagation, Louvain, min-cost optimality of min_cost_max_flow, "
        "leapfrog join: not covered",
    ]
    return chk.finish(proof)


def run(tier, seed):
    return _run(tier, seed)


def replay(path, tier, seed):
    """replay file = a VIOLATION record of this check (its `graph` field) or a file holding one graph spec"""
    txt = open(path).read()
    print(txt)
    try:
        spec = json.loads(txt).get("graph")
    except ValueError:
        spec = txt.strip().splitlines()[0] if txt.strip() else None
    if not spec:
        return run(tier, seed)
    return _run(tier, seed, ["--graph", spec])
